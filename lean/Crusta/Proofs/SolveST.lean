import Crusta.Proofs.SolveCO

/-!
# Stable semantics solver: one extension, credulous and skeptical acceptance

`stSE` / `stAcc` iterate over the connected components, solving the stable encoding of each.  The
theorems are stated for an arbitrary list of components `comps : List (Option Comp)`; how
`allComps v` relates to the framework is proved elsewhere (`CompAlg`, `Decomp2`).
-/

namespace Crusta
open Prog (mkSolver doReserve addClause addClauses getNVars doSolve)

/-- concatenation of the per-component extensions mapped back to original ids -/
def backZip (cs : List Comp) (es : List (List Nat)) : List Nat := (List.zipWith Comp.back cs es).flatten

/-- the i-th component has the i-th list as a stable extension (in positions) -/
def AllStable (cs : List Comp) (es : List (List Nat)) : Prop :=
  es.length = cs.length ∧ ∀ (i : Nat) (c : Comp) (e : List Nat), cs[i]? = some c → es[i]? = some e →
    Stable c.af (ofList e) ∧ ∀ a ∈ e, a < c.af.n

@[simp] theorem backZip_nil : backZip [] [] = [] := rfl

theorem backZip_cons (c : Comp) (cs : List Comp) (e : List Nat) (es : List (List Nat)) :
    backZip (c :: cs) (e :: es) = c.back e ++ backZip cs es := by
  simp [backZip]

theorem AllStable.nil : AllStable [] [] := ⟨rfl, by intro i c e h; simp at h⟩

theorem AllStable.cons {c : Comp} {cs : List Comp} {e : List Nat} {es : List (List Nat)}
    (h1 : Stable c.af (ofList e)) (h2 : ∀ a ∈ e, a < c.af.n) (h : AllStable cs es) :
    AllStable (c :: cs) (e :: es) := by
  refine ⟨by simp [h.1], ?_⟩
  intro i c' e' hc he
  cases i with
  | zero =>
    simp only [List.getElem?_cons_zero, Option.some.injEq] at hc he
    subst hc; subst he; exact ⟨h1, h2⟩
  | succ i =>
    simp only [List.getElem?_cons_succ] at hc he
    exact h.2 i c' e' hc he

/-! ## the stable encoding in a solver, with a fresh selector -/

/-- `base` is equivalent to the stable encoding of `af`; `sel` occurs neither in it nor as an argument variable -/
structure StbBase (af : AF) (base : Cnf) (sel : Nat) : Prop where
  wf : af.WF
  eqv : ∀ ν, cnfTrue ν base = cnfTrue ν (Stb.enc af)
  fresh_db : ∀ c ∈ base, ∀ l ∈ c, l.var ≠ sel
  fresh_arg : ∀ a, a < af.n → a + 1 ≠ sel

theorem Encoded.stbBase {af : AF} {s : Nat} {w : World} (h : Encoded .stb af s false w) (hwf : af.WF) :
    StbBase af (w.db s) (w.nVarsOf s + 1) where
  wf := hwf
  eqv := by
    intro ν
    rw [h.db]
    simp [cnfTrue, List.all_reverse, EncKind.clauses]
  fresh_db := by
    intro c hc l hl; have := h.db_lt c hc l hl; omega
  fresh_arg := by
    intro a ha
    have := h.argVar_le ha
    simp only [EncKind.argVar] at this
    omega

theorem StbBase.decode {af : AF} {base : Cnf} {sel : Nat} (H : StbBase af base sel) (m : Model)
    (h : cnfTrue (asgOfModel m) base = true) :
    Stable af (ofList (Stb.decode af.n m)) ∧ (∀ i ∈ Stb.decode af.n m, i < af.n) ∧
      ∀ i, i < af.n → (i ∈ Stb.decode af.n m ↔ asgOfModel m (i + 1) = true) := by
  rw [H.eqv] at h
  have hs : Stable af (EncKind.stb.S af (asgOfModel m)) := EncKind.sound .stb af H.wf _ h
  have hd : ∀ a, a ∈ Stb.decode af.n m ↔ EncKind.stb.S af (asgOfModel m) a = true :=
    fun a => EncKind.decode_spec .stb af m a
  have ho : ofList (Stb.decode af.n m) = EncKind.stb.S af (asgOfModel m) := EncKind.ofList_decode .stb af m
  refine ⟨ho ▸ hs, ?_, ?_⟩
  · intro i hi
    exact EncKind.S_sub .stb af _ i ((hd i).1 hi)
  · intro i hi
    rw [hd i, EncKind.S_lt .stb hi]
    rfl

theorem StbBase.lift {af : AF} {base : Cnf} {sel : Nat} (H : StbBase af base sel) (T : ASet)
    (hT : Stable af T) (b : Bool) :
    ∃ ν, cnfTrue ν base = true ∧ ν sel = b ∧ ∀ i, i < af.n → ν (i + 1) = T i := by
  obtain ⟨ν, hν, hS⟩ := EncKind.complete .stb af H.wf T hT
  refine ⟨ν.set sel b, ?_, Asg.set_self _ _ _, ?_⟩
  · rw [cnfTrue_set_fresh _ _ _ H.fresh_db, H.eqv]; exact hν
  · intro i hi
    rw [Asg.set_ne _ _ (H.fresh_arg i hi), ← hS, EncKind.S_lt .stb hi]
    rfl

theorem cnfTrue_cons_iff (ν : Asg) (c : Clause) (f : Cnf) :
    cnfTrue ν (c :: f) = true ↔ clauseTrue ν c = true ∧ cnfTrue ν f = true := by
  simp [cnfTrue]

/-- the clause "one of the queried positions, or not the selector" -/
def hitClause (L : List Nat) (sel : Nat) : Clause := L.map (argLit .stb) ++ [nl sel]

theorem clauseTrue_hit (ν : Asg) (L : List Nat) (sel : Nat) :
    clauseTrue ν (hitClause L sel) = true ↔ (∃ p ∈ L, ν (p + 1) = true) ∨ ν sel = false := by
  rw [clauseTrue_iff]
  unfold hitClause
  constructor
  · rintro ⟨l, hl, hlt⟩
    rcases List.mem_append.1 hl with hl | hl
    · obtain ⟨p, hp, rfl⟩ := List.mem_map.1 hl
      left; exact ⟨p, hp, by simpa [argLit, EncKind.argVar] using hlt⟩
    · simp only [List.mem_singleton] at hl; subst hl
      right; simpa using hlt
  · rintro (⟨p, hp, hpt⟩ | h)
    · exact ⟨argLit .stb p, List.mem_append_left _ (List.mem_map_of_mem hp), by simpa [argLit, EncKind.argVar] using hpt⟩
    · exact ⟨nl sel, List.mem_append_right _ (by simp), by simpa using h⟩

section solveFacts
variable {af : AF} {base : Cnf} {sel : Nat} (H : StbBase af base sel)
include H

/-- plain solve: a model decodes to a stable extension -/
theorem StbBase.plain_sat {db : Cnf} {a : List Lit} {m : Model}
    (hsub : ∀ ν, cnfTrue ν db = true → cnfTrue ν base = true) (h : ReplySound db a (.sat m)) :
    Stable af (ofList (Stb.decode af.n m)) ∧ ∀ i ∈ Stb.decode af.n m, i < af.n :=
  let r := H.decode m (hsub _ h.2.1); ⟨r.1, r.2.1⟩

/-- plain solve: UNSAT means there is no stable extension -/
theorem StbBase.plain_unsat (h : ReplySound base [] .unsat) : ∀ T, ¬ Stable af T := by
  intro T hT
  obtain ⟨ν, hν, _, _⟩ := H.lift T hT true
  exact h ν ⟨hν, rfl⟩

/-- solve under the selector: the model contains a queried position -/
theorem StbBase.hit_sat {L : List Nat} (hL : ∀ p ∈ L, p < af.n) {m : Model}
    (h : ReplySound (hitClause L sel :: base) [pl sel] (.sat m)) :
    (Stable af (ofList (Stb.decode af.n m)) ∧ ∀ i ∈ Stb.decode af.n m, i < af.n) ∧
      ∃ p ∈ L, p ∈ Stb.decode af.n m := by
  obtain ⟨_, hΓ, hA⟩ := h
  rw [cnfTrue_cons_iff] at hΓ
  obtain ⟨hst, hlt, hiff⟩ := H.decode m hΓ.2
  refine ⟨⟨hst, hlt⟩, ?_⟩
  have hsel : asgOfModel m sel = true := by simpa [assumpsTrue] using hA
  rcases (clauseTrue_hit _ _ _).1 hΓ.1 with ⟨p, hp, hpt⟩ | hf
  · exact ⟨p, hp, (hiff p (hL p hp)).2 hpt⟩
  · rw [hsel] at hf; cases hf

/-- solve under the selector: UNSAT means no stable extension contains a queried position -/
theorem StbBase.hit_unsat {L : List Nat} (hL : ∀ p ∈ L, p < af.n)
    (h : ReplySound (hitClause L sel :: base) [pl sel] .unsat) :
    ∀ T, Stable af T → ∀ p ∈ L, T p = false := by
  intro T hT p hp
  cases hTp : T p with
  | false => rfl
  | true =>
    exfalso
    obtain ⟨ν, hν, hsel, harg⟩ := H.lift T hT true
    apply h ν
    refine ⟨(cnfTrue_cons_iff _ _ _).2 ⟨(clauseTrue_hit _ _ _).2 (Or.inl ⟨p, hp, ?_⟩), hν⟩, by simp [assumpsTrue, hsel]⟩
    rw [harg p (hL p hp)]; exact hTp

/-- after the selector is retired: UNSAT still means there is no stable extension -/
theorem StbBase.retired_unsat {L : List Nat}
    (h : ReplySound ([nl sel] :: hitClause L sel :: base) [] .unsat) : ∀ T, ¬ Stable af T := by
  intro T hT
  obtain ⟨ν, hν, hsel, _⟩ := H.lift T hT false
  apply h ν
  refine ⟨(cnfTrue_cons_iff _ _ _).2 ⟨?_, (cnfTrue_cons_iff _ _ _).2 ⟨(clauseTrue_hit _ _ _).2 (Or.inr hsel), hν⟩⟩, rfl⟩
  rw [clauseTrue_iff]
  exact ⟨nl sel, by simp, by simp [hsel]⟩

/-- solve under "none of the queried positions": the model avoids them -/
theorem StbBase.avoid_sat {L : List Nat} (hL : ∀ p ∈ L, p < af.n) {m : Model}
    (h : ReplySound base (L.map (fun a => (argLit .stb a).neg)) (.sat m)) :
    (Stable af (ofList (Stb.decode af.n m)) ∧ ∀ i ∈ Stb.decode af.n m, i < af.n) ∧
      ∀ p ∈ L, p ∉ Stb.decode af.n m := by
  obtain ⟨_, hΓ, hA⟩ := h
  obtain ⟨hst, hlt, hiff⟩ := H.decode m hΓ
  refine ⟨⟨hst, hlt⟩, ?_⟩
  intro p hp hmem
  have h1 := (hiff p (hL p hp)).1 hmem
  have h2 : litTrue (asgOfModel m) (argLit .stb p).neg = true := by
    simp only [assumpsTrue, List.all_eq_true] at hA
    exact hA _ (List.mem_map_of_mem hp)
  simp [litTrue, Lit.neg, argLit, pl, EncKind.argVar, h1] at h2

/-- solve under "none of the queried positions": UNSAT means every stable extension has one -/
theorem StbBase.avoid_unsat {L : List Nat} (hL : ∀ p ∈ L, p < af.n)
    (h : ReplySound base (L.map (fun a => (argLit .stb a).neg)) .unsat) :
    ∀ T, Stable af T → ∃ p ∈ L, T p = true := by
  intro T hT
  apply Classical.byContradiction
  intro hno
  obtain ⟨ν, hν, _, harg⟩ := H.lift T hT true
  apply h ν
  refine ⟨hν, ?_⟩
  simp only [assumpsTrue, List.all_eq_true]
  intro l hl
  obtain ⟨p, hp, rfl⟩ := List.mem_map.1 hl
  have : T p = false := by
    cases hTp : T p with
    | false => rfl
    | true => exact (hno ⟨p, hp, hTp⟩).elim
  simp [litTrue, Lit.neg, argLit, pl, EncKind.argVar, harg p (hL p hp), this]

end solveFacts


/-! ## the postconditions, and how they extend by one component

A run stops at the first component without a suitable stable extension, so the components after it
are not inspected (a `none` entry there would have been a panic): the negative answers speak about
`some c ∈ comps`, the answers that went through the whole list give `comps = cs.map some`. -/

def SEPost (comps : List (Option Comp)) (acc : List Nat) (res : Option (List Nat)) : Prop :=
  (∃ cs es, comps = cs.map some ∧ res = some (acc ++ backZip cs es) ∧ AllStable cs es) ∨
  (res = none ∧ ∃ c, some c ∈ comps ∧ ∀ T, ¬ Stable c.af T)

def CredPost (args : List Nat) (comps : List (Option Comp)) (acc : List Nat) (found : Bool) (a : AccAns) : Prop :=
  (a.status = true → ∃ cs es, comps = cs.map some ∧ a.cert = some (acc ++ backZip cs es) ∧ AllStable cs es ∧
      (found = true ∨ ∃ (i : Nat) (c : Comp) (e : List Nat), cs[i]? = some c ∧ es[i]? = some e ∧
        ∃ x ∈ args, ∃ p, c.pos x = some p ∧ p ∈ e)) ∧
  (a.status = false → a.cert = none ∧
      ((∃ c, some c ∈ comps ∧ ∀ T, ¬ Stable c.af T) ∨
       (found = false ∧ ∃ cs : List Comp, comps = cs.map some ∧
          ∀ c ∈ cs, ∀ T, Stable c.af T → ∀ x ∈ args, ∀ p, c.pos x = some p → T p = false)))

def SkepPost (args : List Nat) (comps : List (Option Comp)) (acc : List Nat) (a : AccAns) : Prop :=
  (a.status = false → ∃ cs es, comps = cs.map some ∧ a.cert = some (acc ++ backZip cs es) ∧ AllStable cs es ∧
      ∀ (i : Nat) (c : Comp) (e : List Nat), cs[i]? = some c → es[i]? = some e →
        ∀ x ∈ args, ∀ p, c.pos x = some p → p ∉ e) ∧
  (a.status = true → a.cert = none ∧
      ((∃ c, some c ∈ comps ∧ ∀ T, ¬ Stable c.af T) ∨
       (∃ c, some c ∈ comps ∧ ∀ T, Stable c.af T → ∃ x ∈ args, ∃ p, c.pos x = some p ∧ T p = true)))

theorem SEPost.cons {c : Comp} {rest : List (Option Comp)} {acc e : List Nat} {r : Option (List Nat)}
    (h1 : Stable c.af (ofList e) ∧ ∀ a ∈ e, a < c.af.n) (h : SEPost rest (acc ++ c.back e) r) :
    SEPost (some c :: rest) acc r := by
  rcases h with ⟨cs, es, hcs, hr, hes⟩ | ⟨hr, c', hc', hno⟩
  · exact Or.inl ⟨c :: cs, e :: es, by simp [hcs], by rw [hr, backZip_cons, List.append_assoc], hes.cons h1.1 h1.2⟩
  · exact Or.inr ⟨hr, c', List.mem_cons_of_mem _ hc', hno⟩

theorem SEPost.unsat {c : Comp} {rest : List (Option Comp)} {acc : List Nat} (h : ∀ T, ¬ Stable c.af T) :
    SEPost (some c :: rest) acc none := Or.inr ⟨rfl, c, List.mem_cons_self, h⟩

theorem CredPost.cons_hit {args : List Nat} {c : Comp} {rest : List (Option Comp)} {acc e : List Nat} {found : Bool}
    {a : AccAns} (h1 : Stable c.af (ofList e) ∧ ∀ a ∈ e, a < c.af.n)
    (hit : ∃ x ∈ args, ∃ p, c.pos x = some p ∧ p ∈ e)
    (h : CredPost args rest (acc ++ c.back e) true a) : CredPost args (some c :: rest) acc found a := by
  refine ⟨?_, ?_⟩
  · intro hs
    obtain ⟨cs, es, hcs, hr, hes, _⟩ := h.1 hs
    exact ⟨c :: cs, e :: es, by simp [hcs], by rw [hr, backZip_cons, List.append_assoc], hes.cons h1.1 h1.2,
      Or.inr ⟨0, c, e, rfl, rfl, hit⟩⟩
  · intro hs
    obtain ⟨hr, hno | ⟨hf, _⟩⟩ := h.2 hs
    · obtain ⟨c', hc', hno⟩ := hno
      exact ⟨hr, Or.inl ⟨c', List.mem_cons_of_mem _ hc', hno⟩⟩
    · cases hf

theorem CredPost.cons_miss {args : List Nat} {c : Comp} {rest : List (Option Comp)} {acc e : List Nat} {found : Bool}
    {a : AccAns} (h1 : Stable c.af (ofList e) ∧ ∀ a ∈ e, a < c.af.n)
    (miss : ∀ T, Stable c.af T → ∀ x ∈ args, ∀ p, c.pos x = some p → T p = false)
    (h : CredPost args rest (acc ++ c.back e) found a) : CredPost args (some c :: rest) acc found a := by
  refine ⟨?_, ?_⟩
  · intro hs
    obtain ⟨cs, es, hcs, hr, hes, hf⟩ := h.1 hs
    refine ⟨c :: cs, e :: es, by simp [hcs], by rw [hr, backZip_cons, List.append_assoc], hes.cons h1.1 h1.2, ?_⟩
    rcases hf with hf | ⟨i, c', e', hc', he', hx⟩
    · exact Or.inl hf
    · exact Or.inr ⟨i + 1, c', e', hc', he', hx⟩
  · intro hs
    obtain ⟨hr, hno | ⟨hf, cs, hcs, hall⟩⟩ := h.2 hs
    · obtain ⟨c', hc', hno⟩ := hno
      exact ⟨hr, Or.inl ⟨c', List.mem_cons_of_mem _ hc', hno⟩⟩
    · refine ⟨hr, Or.inr ⟨hf, c :: cs, by simp [hcs], ?_⟩⟩
      intro c' hc'
      rcases List.mem_cons.1 hc' with rfl | hc'
      · exact miss
      · exact hall c' hc'

theorem CredPost.unsat {args : List Nat} {c : Comp} {rest : List (Option Comp)} {acc : List Nat} {found : Bool}
    (h : ∀ T, ¬ Stable c.af T) : CredPost args (some c :: rest) acc found ⟨false, none⟩ :=
  ⟨fun hs => (by simp at hs), fun _ => ⟨rfl, Or.inl ⟨c, List.mem_cons_self, h⟩⟩⟩

theorem SkepPost.cons {args : List Nat} {c : Comp} {rest : List (Option Comp)} {acc e : List Nat} {a : AccAns}
    (h1 : Stable c.af (ofList e) ∧ ∀ a ∈ e, a < c.af.n)
    (avoid : ∀ x ∈ args, ∀ p, c.pos x = some p → p ∉ e)
    (h : SkepPost args rest (acc ++ c.back e) a) : SkepPost args (some c :: rest) acc a := by
  refine ⟨?_, ?_⟩
  · intro hs
    obtain ⟨cs, es, hcs, hr, hes, hav⟩ := h.1 hs
    refine ⟨c :: cs, e :: es, by simp [hcs], by rw [hr, backZip_cons, List.append_assoc], hes.cons h1.1 h1.2, ?_⟩
    intro i c' e' hc' he'
    cases i with
    | zero =>
      simp only [List.getElem?_cons_zero, Option.some.injEq] at hc' he'
      subst hc'; subst he'; exact avoid
    | succ i =>
      simp only [List.getElem?_cons_succ] at hc' he'
      exact hav i c' e' hc' he'
  · intro hs
    obtain ⟨hr, hno | hno⟩ := h.2 hs
    · obtain ⟨c', hc', hno⟩ := hno
      exact ⟨hr, Or.inl ⟨c', List.mem_cons_of_mem _ hc', hno⟩⟩
    · obtain ⟨c', hc', hno⟩ := hno
      exact ⟨hr, Or.inr ⟨c', List.mem_cons_of_mem _ hc', hno⟩⟩

theorem SkepPost.unsat {args : List Nat} {c : Comp} {rest : List (Option Comp)} {acc : List Nat}
    (h : ∀ T, Stable c.af T → ∃ x ∈ args, ∃ p, c.pos x = some p ∧ T p = true) :
    SkepPost args (some c :: rest) acc ⟨true, none⟩ :=
  ⟨fun hs => (by simp at hs), fun _ => ⟨rfl, Or.inr ⟨c, List.mem_cons_self, h⟩⟩⟩

/-! ## the wp rules used below -/

theorem wp_doSolve {C : Prop} (s : Nat) (a : List Lit) (w : World) (Q : Option Model → World → Prop) :
    wp C (doSolve s a) w Q ↔
      (∀ m, ReplySound (w.db s) a (.sat m) → Q (some m) ((w.onSolve s a).onReply s (.sat m))) ∧
      (ReplySound (w.db s) a .unsat → Q none ((w.onSolve s a).onReply s .unsat)) := Iff.rfl

theorem Bounded_solve {w : World} (h : w.Bounded) (s : Nat) (a : List Lit) (r : Reply) :
    ((w.onSolve s a).onReply s r).Bounded := Bounded_onReply (Bounded_onSolve h s a) s r

/-- the common prefix of one round: take the component, create a solver, encode -/
theorem wp_stInit {β : Type} (oc : Option Comp) (w : World) (hb : w.Bounded) (k : Comp → Nat → Prog β)
    (Q : β → World → Prop)
    (h : ∀ c, oc = some c → ∀ w1, Encoded .stb c.af w.solvers.length false w1 →
      wp True (k c w.solvers.length) w1 Q) :
    wp True ((needComp' oc).bind fun c => mkSolver.bind fun s =>
      (encodeInto .stb c.af s false).bind fun _ => k c s) w Q := by
  cases oc with
  | none => trivial
  | some c =>
    show wp True (mkSolver.bind _) w Q
    rw [wp_bind, wp_mkSolver, wp_bind]
    have hlen : w.solvers.length < w.onNew.solvers.length := by simp [World.onNew]
    apply wp_encodeInto _ _ _ _ _ (Bounded_onNew hb) hlen (db_onNew_self w)
    intro w1 henc _
    exact h c rfl w1 henc

theorem mem_inCc {c : Comp} {args : List Nat} {p : Nat} :
    p ∈ args.filterMap c.pos ↔ ∃ x ∈ args, c.pos x = some p := List.mem_filterMap

/-! ## `stSE` -/

theorem wp_stSE_go (comps : List (Option Comp)) : ∀ (acc : List Nat) (w : World) (_hb : w.Bounded)
    (_hgood : ∀ c, some c ∈ comps → c.af.WF ∧ c.af.n = c.ids.length),
    wp True (stSE.go comps acc) w (fun res w' => w'.Bounded ∧
      ((∃ cs es, comps = cs.map some ∧ res = some (acc ++ backZip cs es) ∧ AllStable cs es) ∨
       (res = none ∧ ∃ c, some c ∈ comps ∧ ∀ T, ¬ Stable c.af T))) := by
  induction comps with
  | nil =>
    intro acc w hb _
    unfold stSE.go
    exact ⟨hb, Or.inl ⟨[], [], rfl, by simp, AllStable.nil⟩⟩
  | cons oc rest ih =>
    intro acc w hb hgood
    unfold stSE.go
    simp only [Prog.bind_eq]
    apply wp_stInit oc w hb
    intro c hoc w1 henc
    subst hoc
    obtain ⟨hwf, hn⟩ := hgood c List.mem_cons_self
    have H := henc.stbBase hwf
    have hgood' : ∀ c, some c ∈ rest → c.af.WF ∧ c.af.n = c.ids.length :=
      fun c' hc' => hgood c' (List.mem_cons_of_mem _ hc')
    rw [wp_bind, wp_doSolve]
    refine ⟨?_, ?_⟩
    · intro m hm
      have hst := H.plain_sat (fun _ h => h) hm
      refine wp_mono _ _ _ _ ?_ (ih _ _ (Bounded_solve henc.bounded _ _ _) hgood')
      rintro r w' ⟨hb', hpost⟩
      exact ⟨hb', SEPost.cons hst hpost⟩
    · intro hu
      exact ⟨Bounded_solve henc.bounded _ _ _, SEPost.unsat (H.plain_unsat hu)⟩

/-! ## `stAcc`, credulous -/

theorem wp_stAcc_cred_aux (comps : List (Option Comp)) (args : List Nat) : ∀ (acc : List Nat) (found : Bool)
    (w : World) (_hb : w.Bounded) (_hgood : ∀ c, some c ∈ comps → c.af.WF ∧ c.af.n = c.ids.length),
    wp True (stAcc.go args true false comps acc found) w (fun a w' => w'.Bounded ∧
      CredPost args comps acc found a) := by
  induction comps with
  | nil =>
    intro acc found w hb _
    unfold stAcc.go
    cases found
    · exact ⟨hb, by simp [CredPost]⟩
    · exact ⟨hb, fun _ => ⟨[], [], rfl, by simp, AllStable.nil, Or.inl rfl⟩, fun hs => (by simp at hs)⟩
  | cons oc rest ih =>
    intro acc found w hb hgood
    unfold stAcc.go
    simp only [Prog.bind_eq]
    apply wp_stInit oc w hb
    intro c hoc w1 henc
    subst hoc
    obtain ⟨hwf, hn⟩ := hgood c List.mem_cons_self
    have H := henc.stbBase hwf
    have hgood' : ∀ c, some c ∈ rest → c.af.WF ∧ c.af.n = c.ids.length :=
      fun c' hc' => hgood c' (List.mem_cons_of_mem _ hc')
    have hL : ∀ p ∈ args.filterMap c.pos, p < c.af.n := by
      intro p hp
      obtain ⟨x, _, hx⟩ := mem_inCc.1 hp
      exact Comp.pos_lt hn hx
    by_cases hemp : (!(args.filterMap c.pos).isEmpty) = true
    · rw [if_pos hemp, if_pos trivial, wp_bind, wp_getNVars, wp_bind, wp_addClause1, wp_bind, wp_doSolve]
      have hb2 : ((w1.onNVars w.solvers.length).onClause w.solvers.length
          (hitClause (args.filterMap c.pos) (w1.nVarsOf w.solvers.length + 1))).Bounded :=
        Bounded_onClause (Bounded_onNVars henc.bounded _) _ _
      refine ⟨?_, ?_⟩
      · intro m hm
        rw [wp_bind, wp_addClause1]
        simp only [db_onClause_same, db_onNVars] at hm
        obtain ⟨hst, p, hp, hpe⟩ := H.hit_sat hL hm
        obtain ⟨x, hx, hxp⟩ := mem_inCc.1 hp
        refine wp_mono _ _ _ _ ?_ (ih _ true _ (Bounded_onClause (Bounded_solve hb2 _ _ _) _ _) hgood')
        rintro a w' ⟨hb', hpost⟩
        exact ⟨hb', CredPost.cons_hit hst ⟨x, hx, p, hxp, hpe⟩ hpost⟩
      · intro hu
        rw [wp_bind, wp_addClause1]
        simp only [db_onClause_same, db_onNVars] at hu
        have hmiss := H.hit_unsat hL hu
        show wp True ((doSolve _ _).bind _) _ _
        rw [wp_bind, wp_doSolve]
        have hb3 := Bounded_onClause (Bounded_solve hb2 w.solvers.length [pl (w1.nVarsOf w.solvers.length + 1)] .unsat)
          w.solvers.length [nl (w1.nVarsOf w.solvers.length + 1)]
        refine ⟨?_, ?_⟩
        · intro m hm
          simp only [db_onClause_same, db_onNVars, db_onSolve, db_onReply] at hm
          have hst := H.plain_sat (db := _) (fun ν h => ((cnfTrue_cons_iff _ _ _).1 ((cnfTrue_cons_iff _ _ _).1 h).2).2) hm
          refine wp_mono _ _ _ _ ?_ (ih _ found _ (Bounded_solve hb3 _ _ _) hgood')
          rintro a w' ⟨hb', hpost⟩
          refine ⟨hb', CredPost.cons_miss hst ?_ hpost⟩
          intro T hT x hx p hxp
          exact hmiss T hT p (mem_inCc.2 ⟨x, hx, hxp⟩)
        · intro hu2
          simp only [db_onClause_same, db_onNVars, db_onSolve, db_onReply] at hu2
          exact ⟨Bounded_solve hb3 _ _ _, CredPost.unsat (H.retired_unsat hu2)⟩
    · rw [if_neg hemp, wp_bind, wp_doSolve]
      have hnone : ∀ x ∈ args, ∀ p, c.pos x = some p → False := by
        intro x hx p hxp
        have : p ∈ args.filterMap c.pos := mem_inCc.2 ⟨x, hx, hxp⟩
        have he : args.filterMap c.pos = [] := by simpa using hemp
        rw [he] at this; cases this
      refine ⟨?_, ?_⟩
      · intro m hm
        have hst := H.plain_sat (fun _ h => h) hm
        refine wp_mono _ _ _ _ ?_ (ih _ found _ (Bounded_solve henc.bounded _ _ _) hgood')
        rintro a w' ⟨hb', hpost⟩
        refine ⟨hb', CredPost.cons_miss hst ?_ hpost⟩
        intro T _ x hx p hxp
        exact (hnone x hx p hxp).elim
      · intro hu
        exact ⟨Bounded_solve henc.bounded _ _ _, CredPost.unsat (H.plain_unsat hu)⟩

/-! ## `stAcc`, skeptical -/

theorem wp_stAcc_skep_aux (comps : List (Option Comp)) (args : List Nat) : ∀ (acc : List Nat) (found : Bool)
    (w : World) (_hb : w.Bounded) (_hgood : ∀ c, some c ∈ comps → c.af.WF ∧ c.af.n = c.ids.length),
    wp True (stAcc.go args false true comps acc found) w (fun a w' => w'.Bounded ∧
      SkepPost args comps acc a) := by
  induction comps with
  | nil =>
    intro acc found w hb _
    unfold stAcc.go
    exact ⟨hb, fun _ => ⟨[], [], rfl, by simp, AllStable.nil, by intro i c e h; simp at h⟩,
      fun hs => (by simp at hs)⟩
  | cons oc rest ih =>
    intro acc found w hb hgood
    unfold stAcc.go
    simp only [Prog.bind_eq]
    apply wp_stInit oc w hb
    intro c hoc w1 henc
    subst hoc
    obtain ⟨hwf, hn⟩ := hgood c List.mem_cons_self
    have H := henc.stbBase hwf
    have hgood' : ∀ c, some c ∈ rest → c.af.WF ∧ c.af.n = c.ids.length :=
      fun c' hc' => hgood c' (List.mem_cons_of_mem _ hc')
    have hL : ∀ p ∈ args.filterMap c.pos, p < c.af.n := by
      intro p hp
      obtain ⟨x, _, hx⟩ := mem_inCc.1 hp
      exact Comp.pos_lt hn hx
    by_cases hemp : (!(args.filterMap c.pos).isEmpty) = true
    · rw [if_pos hemp, if_neg (by simp), wp_bind, wp_doSolve]
      refine ⟨?_, ?_⟩
      · intro m hm
        obtain ⟨hst, hav⟩ := H.avoid_sat hL hm
        refine wp_mono _ _ _ _ ?_ (ih _ found _ (Bounded_solve henc.bounded _ _ _) hgood')
        rintro a w' ⟨hb', hpost⟩
        refine ⟨hb', SkepPost.cons hst ?_ hpost⟩
        intro x hx p hxp
        exact hav p (mem_inCc.2 ⟨x, hx, hxp⟩)
      · intro hu
        refine ⟨Bounded_solve henc.bounded _ _ _, SkepPost.unsat ?_⟩
        intro T hT
        obtain ⟨p, hp, hTp⟩ := H.avoid_unsat hL hu T hT
        obtain ⟨x, hx, hxp⟩ := mem_inCc.1 hp
        exact ⟨x, hx, p, hxp, hTp⟩
    · rw [if_neg hemp, wp_bind, wp_doSolve]
      have hnone : ∀ x ∈ args, ∀ p, c.pos x = some p → False := by
        intro x hx p hxp
        have : p ∈ args.filterMap c.pos := mem_inCc.2 ⟨x, hx, hxp⟩
        have he : args.filterMap c.pos = [] := by simpa using hemp
        rw [he] at this; cases this
      refine ⟨?_, ?_⟩
      · intro m hm
        have hst := H.plain_sat (fun _ h => h) hm
        refine wp_mono _ _ _ _ ?_ (ih _ found _ (Bounded_solve henc.bounded _ _ _) hgood')
        rintro a w' ⟨hb', hpost⟩
        refine ⟨hb', SkepPost.cons hst ?_ hpost⟩
        intro x hx p hxp
        exact (hnone x hx p hxp).elim
      · intro hu
        refine ⟨Bounded_solve henc.bounded _ _ _, SkepPost.unsat ?_⟩
        intro T hT
        exact (H.plain_unsat hu T hT).elim

/-! ## the two acceptance loops, postconditions spelled out -/

/-- credulous: polarity = true, statusOnUnsat = false -/
theorem wp_stAcc_cred (comps : List (Option Comp)) (args : List Nat) (acc : List Nat) (found : Bool)
    (w : World) (hb : w.Bounded) (hgood : ∀ c, some c ∈ comps → c.af.WF ∧ c.af.n = c.ids.length) :
    wp True (stAcc.go args true false comps acc found) w (fun a w' => w'.Bounded ∧
      (a.status = true → ∃ cs es, comps = cs.map some ∧ a.cert = some (acc ++ backZip cs es) ∧ AllStable cs es ∧
          (found = true ∨ ∃ (i : Nat) (c : Comp) (e : List Nat), cs[i]? = some c ∧ es[i]? = some e ∧
            ∃ x ∈ args, ∃ p, c.pos x = some p ∧ p ∈ e)) ∧
      (a.status = false → a.cert = none ∧
          ((∃ c, some c ∈ comps ∧ ∀ T, ¬ Stable c.af T) ∨
           (found = false ∧ ∃ cs : List Comp, comps = cs.map some ∧
              ∀ c ∈ cs, ∀ T, Stable c.af T → ∀ x ∈ args, ∀ p, c.pos x = some p → T p = false)))) :=
  wp_stAcc_cred_aux comps args acc found w hb hgood

/-- skeptical: polarity = false, statusOnUnsat = true -/
theorem wp_stAcc_skep (comps : List (Option Comp)) (args : List Nat) (acc : List Nat) (found : Bool)
    (w : World) (hb : w.Bounded) (hgood : ∀ c, some c ∈ comps → c.af.WF ∧ c.af.n = c.ids.length) :
    wp True (stAcc.go args false true comps acc found) w (fun a w' => w'.Bounded ∧
      (a.status = false → ∃ cs es, comps = cs.map some ∧ a.cert = some (acc ++ backZip cs es) ∧ AllStable cs es ∧
          ∀ (i : Nat) (c : Comp) (e : List Nat), cs[i]? = some c → es[i]? = some e →
            ∀ x ∈ args, ∀ p, c.pos x = some p → p ∉ e) ∧
      (a.status = true → a.cert = none ∧
          ((∃ c, some c ∈ comps ∧ ∀ T, ¬ Stable c.af T) ∨
           (∃ c, some c ∈ comps ∧ ∀ T, Stable c.af T → ∃ x ∈ args, ∃ p, c.pos x = some p ∧ T p = true)))) :=
  wp_stAcc_skep_aux comps args acc found w hb hgood

/-! ## the entry points -/

/-- `stSE`: some extension made of one stable extension per component, or `none` and some component
has no stable extension -/
theorem wp_stSE (v : FwView) (w : World) (hb : w.Bounded)
    (hgood : ∀ c, some c ∈ allComps v → c.af.WF ∧ c.af.n = c.ids.length) :
    wp True (stSE v) w (fun res w' => w'.Bounded ∧
      ((∃ cs es, allComps v = cs.map some ∧ res = some (backZip cs es) ∧ AllStable cs es) ∨
       (res = none ∧ ∃ c, some c ∈ allComps v ∧ ∀ T, ¬ Stable c.af T))) := by
  unfold stSE
  have := wp_stSE_go (allComps v) [] w hb hgood
  simpa only [List.nil_append] using this

/-- `stDC` (credulous acceptance with certificate) -/
theorem wp_stDC (v : FwView) (args : List Nat) (w : World) (hb : w.Bounded)
    (hgood : ∀ c, some c ∈ allComps v → c.af.WF ∧ c.af.n = c.ids.length) :
    wp True (stDC v args) w (fun a w' => w'.Bounded ∧
      (a.status = true → ∃ cs es, allComps v = cs.map some ∧ a.cert = some (backZip cs es) ∧ AllStable cs es ∧
          ∃ (i : Nat) (c : Comp) (e : List Nat), cs[i]? = some c ∧ es[i]? = some e ∧
            ∃ x ∈ args, ∃ p, c.pos x = some p ∧ p ∈ e) ∧
      (a.status = false → a.cert = none ∧
          ((∃ c, some c ∈ allComps v ∧ ∀ T, ¬ Stable c.af T) ∨
           (∃ cs : List Comp, allComps v = cs.map some ∧
              ∀ c ∈ cs, ∀ T, Stable c.af T → ∀ x ∈ args, ∀ p, c.pos x = some p → T p = false)))) := by
  unfold stDC stAcc
  refine wp_mono _ _ _ _ ?_ (wp_stAcc_cred (allComps v) args [] false w hb hgood)
  rintro a w' ⟨hb', h1, h2⟩
  refine ⟨hb', ?_, ?_⟩
  · intro hs
    obtain ⟨cs, es, hcs, hc, hes, hf⟩ := h1 hs
    refine ⟨cs, es, hcs, by simpa using hc, hes, ?_⟩
    rcases hf with hf | hf
    · cases hf
    · exact hf
  · intro hs
    obtain ⟨hc, h | ⟨_, h⟩⟩ := h2 hs
    · exact ⟨hc, Or.inl h⟩
    · exact ⟨hc, Or.inr h⟩

/-- `stDS` (skeptical acceptance with counterexample) -/
theorem wp_stDS (v : FwView) (args : List Nat) (w : World) (hb : w.Bounded)
    (hgood : ∀ c, some c ∈ allComps v → c.af.WF ∧ c.af.n = c.ids.length) :
    wp True (stDS v args) w (fun a w' => w'.Bounded ∧
      (a.status = false → ∃ cs es, allComps v = cs.map some ∧ a.cert = some (backZip cs es) ∧ AllStable cs es ∧
          ∀ (i : Nat) (c : Comp) (e : List Nat), cs[i]? = some c → es[i]? = some e →
            ∀ x ∈ args, ∀ p, c.pos x = some p → p ∉ e) ∧
      (a.status = true → a.cert = none ∧
          ((∃ c, some c ∈ allComps v ∧ ∀ T, ¬ Stable c.af T) ∨
           (∃ c, some c ∈ allComps v ∧ ∀ T, Stable c.af T → ∃ x ∈ args, ∃ p, c.pos x = some p ∧ T p = true)))) := by
  unfold stDS stAcc
  refine wp_mono _ _ _ _ ?_ (wp_stAcc_skep (allComps v) args [] false w hb hgood)
  rintro a w' ⟨hb', h1, h2⟩
  refine ⟨hb', ?_, h2⟩
  intro hs
  obtain ⟨cs, es, hcs, hc, hes, hf⟩ := h1 hs
  exact ⟨cs, es, hcs, by simpa using hc, hes, hf⟩

end Crusta
