import Crusta.Proofs.SolveMEC
import Crusta.Proofs.Maximal

/-!
# Preferred semantics on one component: `compute_maximal` and the skeptical search
-/

namespace Crusta
open Prog (mkSolver doReserve addClause addClauses getNVars doSolve)

theorem MInvF.congr_db {F : AF → ASet → Prop} {m : MEC} {w w' : World} {blocked : List (List Nat)}
    (h : MInvF F m w blocked) (hdb : w'.db m.sid = w.db m.sid) : MInvF F m w' blocked :=
  { h with db_sound := by rw [hdb]; exact h.db_sound
           db_enc := by rw [hdb]; exact h.db_enc
           db_blk := by rw [hdb]; exact h.db_blk }

theorem MInv.congr_db {m : MEC} {w w' : World} {blocked : List (List Nat)} (h : MInv m w blocked)
    (hdb : w'.db m.sid = w.db m.sid) : MInv m w' blocked := MInvF.congr_db h hdb

/-- changing only the search state of the computer keeps the solver invariant -/
theorem MInvF.congr_m {F : AF → ASet → Prop} {m m' : MEC} {w : World} {blocked : List (List Nat)}
    (h : MInvF F m w blocked)
    (haf : m'.af = m.af) (henc : m'.enc = m.enc) (hsid : m'.sid = m.sid) (hsel : m'.sel = m.sel)
    (hadd : m'.additional = m.additional) : MInvF F m' w blocked := by
  constructor
  · rw [haf]; exact h.wf
  · rw [haf, henc]; exact h.isF
  · rw [haf, henc, hsid, hsel]; exact h.db_sound
  · rw [haf, henc, hsid]; exact h.db_enc
  · rw [haf, henc, hsid, hsel]; exact h.db_blk
  · rw [haf, henc, hsel]; exact h.fresh_enc
  · rw [haf, henc, hsel]; exact h.fresh_arg
  · rw [hadd]; exact h.no_add

theorem MInv.congr_m {m m' : MEC} {w : World} {blocked : List (List Nat)} (h : MInv m w blocked)
    (haf : m'.af = m.af) (henc : m'.enc = m.enc) (hsid : m'.sid = m.sid) (hsel : m'.sel = m.sel)
    (hadd : m'.additional = m.additional) : MInv m' w blocked := MInvF.congr_m h haf henc hsid hsel hadd

/-- adding the blocking clause of a set -/
theorem MInvF.block {F : AF → ASet → Prop} {m : MEC} {w : World} {blocked : List (List Nat)}
    (h : MInvF F m w blocked) (E : List Nat) :
    MInvF F m (w.onClause m.sid (outL m.enc m.af.n E ++ [pl m.sel])) (E :: blocked) := by
  refine { h with db_sound := ?_, db_enc := ?_, db_blk := ?_ }
  · intro c hc
    rw [db_onClause_same] at hc
    rcases List.mem_cons.1 hc with rfl | hc
    · exact Or.inr ⟨E, by simp, rfl⟩
    · rcases h.db_sound c hc with h1 | ⟨E', hE', rfl⟩
      · exact Or.inl h1
      · exact Or.inr ⟨E', by simp [hE'], rfl⟩
  · intro c hc; rw [db_onClause_same]; exact List.mem_cons_of_mem _ (h.db_enc c hc)
  · intro E' hE'
    rw [db_onClause_same]
    rcases List.mem_cons.1 hE' with rfl | hE'
    · exact List.mem_cons_self
    · exact List.mem_cons_of_mem _ (h.db_blk E' hE')

theorem MInv.block {m : MEC} {w : World} {blocked : List (List Nat)} (h : MInv m w blocked) (E : List Nat) :
    MInv m (w.onClause m.sid (outL m.enc m.af.n E ++ [pl m.sel])) (E :: blocked) := MInvF.block h E

theorem wp_MEC_newF {F : AF → ASet → Prop} {C : Prop} {enc : EncKind} {af : AF} {sid : Nat} {w : World}
    (henc : Encoded enc af sid false w)
    (hwf : af.WF) (hco : ∀ T, enc.Base af T ↔ F af T) (kind : MKind) :
    wp C (MEC.new af enc sid kind) w (fun m w' => MInvF F m w' [] ∧ m.af = af ∧ m.enc = enc ∧ m.sid = sid ∧
      m.kind = kind ∧ m.state = .init ∧ w'.Bounded ∧ w'.db sid = w.db sid) := by
  unfold MEC.new
  simp only [Prog.bind_eq]
  rw [wp_bind, wp_getNVars]
  have hdbc : ∀ c, c ∈ w.db sid ↔ c ∈ enc.clauses af := by
    intro c; rw [henc.db]; simp
  refine ⟨⟨hwf, hco, ?_, ?_, ?_, ?_, ?_, rfl⟩, rfl, rfl, rfl, rfl, rfl, Bounded_onNVars henc.bounded _, db_onNVars _ _ _⟩
  · intro c hc; rw [db_onNVars] at hc; exact Or.inl ((hdbc c).1 hc)
  · intro c hc; rw [db_onNVars]; exact (hdbc c).2 hc
  · intro E hE; cases hE
  · intro c hc l hl
    have := henc.db_lt c ((hdbc c).2 hc) l hl
    show l.var ≠ w.nVarsOf sid + 1
    omega
  · intro a ha
    have := henc.argVar_le ha
    show enc.argVar a ≠ w.nVarsOf sid + 1
    omega

theorem wp_MEC_new {C : Prop} {enc : EncKind} {af : AF} {sid : Nat} {w : World} (henc : Encoded enc af sid false w)
    (hwf : af.WF) (hco : ∀ T, enc.Base af T ↔ Complete af T) (kind : MKind) :
    wp C (MEC.new af enc sid kind) w (fun m w' => MInv m w' [] ∧ m.af = af ∧ m.enc = enc ∧ m.sid = sid ∧
      m.kind = kind ∧ m.state = .init ∧ w'.Bounded ∧ w'.db sid = w.db sid) :=
  wp_MEC_newF henc hwf hco kind

/-- a SAT call of the computer under `must ∧ ¬selector` (plus extra assumptions) -/
theorem wp_MEC_solveF {F : AF → ASet → Prop} {C : Prop} {m : MEC} {w : World} {blocked : List (List Nat)}
    (h : MInvF F m w blocked)
    (must : List Nat) (extra : List Lit) (Q : Option (Model × List Nat) → World → Prop)
    (hsat : ∀ mdl w', MInvF F m w' blocked → w'.db m.sid = w.db m.sid →
      F m.af (ofList (m.enc.decode m.af.n mdl)) →
      (∀ a ∈ must, a < m.af.n → a ∈ m.enc.decode m.af.n mdl) →
      (∀ E ∈ blocked, ¬ SubL (ofList (m.enc.decode m.af.n mdl)) E) →
      assumpsTrue (asgOfModel mdl) extra = true →
      Q (some (mdl, m.enc.decode m.af.n mdl)) w')
    (hunsat : ∀ w', MInvF F m w' blocked → w'.db m.sid = w.db m.sid →
      (∀ T, F m.af T → (∀ a ∈ must, a < m.af.n → T a = true) →
        (∀ ν, m.enc.S m.af ν = T → ν m.sel = false → assumpsTrue ν extra = true) → ∃ E ∈ blocked, SubL T E) →
      Q none w') :
    wp C (m.solve (inL m.enc m.af.n must ++ [nl m.sel] ++ extra)) w Q := by
  unfold MEC.solve
  simp only [Prog.bind_eq, h.no_add, List.append_nil]
  rw [wp_bind]
  have hdb : ∀ r, ((w.onSolve m.sid (inL m.enc m.af.n must ++ [nl m.sel] ++ extra)).onReply m.sid r).db m.sid = w.db m.sid := by
    intro r; simp
  constructor
  · rintro mdl ⟨_, hΓ, hA⟩
    obtain ⟨h1, h2, h3, h4⟩ := solve_satF h must extra hΓ hA
    have hS := m.enc.ofList_decode m.af mdl
    refine hsat mdl _ (h.congr_db (hdb _)) (hdb _) (by rw [hS]; exact h1) ?_ (by rw [hS]; exact h3) h4
    intro a ha hn
    exact (m.enc.decode_spec m.af mdl a).2 (h2 a ha hn)
  · intro hun
    refine hunsat _ (h.congr_db (hdb _)) (hdb _) ?_
    intro T hT hmust hextra
    exact solve_unsatF h must extra hun hT hmust hextra

theorem wp_MEC_solve {C : Prop} {m : MEC} {w : World} {blocked : List (List Nat)} (h : MInv m w blocked)
    (must : List Nat) (extra : List Lit) (Q : Option (Model × List Nat) → World → Prop)
    (hsat : ∀ mdl w', MInv m w' blocked → w'.db m.sid = w.db m.sid →
      Complete m.af (ofList (m.enc.decode m.af.n mdl)) →
      (∀ a ∈ must, a < m.af.n → a ∈ m.enc.decode m.af.n mdl) →
      (∀ E ∈ blocked, ¬ SubL (ofList (m.enc.decode m.af.n mdl)) E) →
      assumpsTrue (asgOfModel mdl) extra = true →
      Q (some (mdl, m.enc.decode m.af.n mdl)) w')
    (hunsat : ∀ w', MInv m w' blocked → w'.db m.sid = w.db m.sid →
      (∀ T, Complete m.af T → (∀ a ∈ must, a < m.af.n → T a = true) →
        (∀ ν, m.enc.S m.af ν = T → ν m.sel = false → assumpsTrue ν extra = true) → ∃ E ∈ blocked, SubL T E) →
      Q none w') :
    wp C (m.solve (inL m.enc m.af.n must ++ [nl m.sel] ++ extra)) w Q :=
  wp_MEC_solveF h must extra Q hsat hunsat

/-- what the solver proofs need from the grounded algorithm on a compact framework
(proved in `GroundedAlg.lean`) -/
def GrOK (af : AF) : Prop :=
  Complete af (ofList (groundedV af.view)) ∧ (∀ a ∈ groundedV af.view, a < af.n) ∧
    ∀ T, Complete af T → SubsetS (ofList (groundedV af.view)) T

theorem ofList_mem (l : List Nat) (a : Nat) : ofList l a = true ↔ a ∈ l := by
  unfold ofList; exact List.contains_iff_mem

theorem blockAndAssume_pref {m : MEC} (hk : m.kind = .preferred) :
    m.blockAndAssume = (outL m.enc m.af.n m.cur ++ [pl m.sel], inL m.enc m.af.n m.cur ++ [nl m.sel]) := by
  unfold MEC.blockAndAssume
  rw [hk]
  simp only [splitInExt_eq]

/-- the families of sets whose ⊆-maximal members are the preferred extensions and that contain the
complete extensions: the complete extensions themselves and the admissible sets.  The growing
search of `compute_maximal` is correct for an encoder of any such family. -/
structure PrefFam (F : AF → ASet → Prop) : Prop where
  sub : ∀ {af : AF} {T : ASet}, F af T → ∀ a, T a = true → a < af.n
  of_co : ∀ {af : AF} {T : ASet}, Complete af T → F af T
  max_pref : ∀ {af : AF} {S : ASet}, F af S → (∀ T, F af T → SubsetS S T → SubsetS T S) → Preferred af S

theorem prefFam_complete : PrefFam Complete :=
  ⟨fun h => h.1.1.1, fun h => h, fun h hmax => preferred_of_max_complete h hmax⟩

theorem prefFam_admissible : PrefFam Admissible :=
  ⟨fun h => h.1.1, fun h => h.1, fun h hmax => ⟨h, hmax⟩⟩

/-- the invariant of the growing phase: the current set is in the family, every blocked set is below it -/
structure GrowInvF (F : AF → ASet → Prop) (m : MEC) (w : World) (blocked : List (List Nat)) : Prop where
  minv : MInvF F m w blocked
  kind : m.kind = .preferred
  st : m.state = .intermediate ∨ m.state = .maximal
  cur_lt : ∀ a ∈ m.cur, a < m.af.n
  cur_co : F m.af (ofList m.cur)
  below : ∀ B ∈ blocked, ∀ a ∈ B, a ∈ m.cur
  max : m.state = .maximal → ∀ T, F m.af T → SubsetS (ofList m.cur) T → SubsetS T (ofList m.cur)

/-- the invariant of the growing phase: the current set is complete, every blocked set is below it -/
abbrev GrowInv (m : MEC) (w : World) (blocked : List (List Nat)) : Prop := GrowInvF Complete m w blocked

/-- one increase step of a growing computer -/
theorem wp_increaseF {F : AF → ASet → Prop} (hF : PrefFam F) {C : Prop} {m : MEC} {w : World}
    {blocked : List (List Nat)} (h : GrowInvF F m w blocked)
    (hst : m.state = .intermediate) :
    wp C m.computeNext w (fun m' w' => ∃ blocked', GrowInvF F m' w' blocked' ∧ m'.af = m.af ∧ m'.enc = m.enc ∧
      m'.sid = m.sid ∧ m'.sel = m.sel ∧ (∀ a ∈ m.cur, a ∈ m'.cur) ∧ w'.db m.sid ≠ [] ) := by
  unfold MEC.computeNext
  rw [hst]
  simp only [Prog.bind_eq, blockAndAssume_pref h.kind]
  rw [wp_bind, wp_addClause1, wp_bind]
  have hM := h.minv.block m.cur
  have happ : inL m.enc m.af.n m.cur ++ [nl m.sel] = inL m.enc m.af.n m.cur ++ [nl m.sel] ++ [] := by simp
  rw [happ]
  apply wp_MEC_solveF hM m.cur []
  · intro mdl w' hM' hdb hco hmust hblk _
    refine ⟨m.cur :: blocked, ⟨hM'.congr_m rfl rfl rfl rfl rfl, h.kind, Or.inl rfl, ?_, hco, ?_, ?_⟩, rfl, rfl, rfl, rfl, ?_, ?_⟩
    · intro a ha
      exact hF.sub hco a ((ofList_mem _ a).2 ha)
    · intro B hB a ha
      rcases List.mem_cons.1 hB with rfl | hB
      · exact hmust a ha (h.cur_lt a ha)
      · exact hmust a (h.below B hB a ha) (h.cur_lt a (h.below B hB a ha))
    · intro hmax; cases hmax
    · intro a ha; exact hmust a ha (h.cur_lt a ha)
    · rw [hdb, db_onClause_same]; simp
  · intro w' hM' hdb hun
    refine ⟨m.cur :: blocked, ⟨hM'.congr_m rfl rfl rfl rfl rfl, h.kind, Or.inr rfl, h.cur_lt, h.cur_co, ?_, ?_⟩, rfl, rfl, rfl, rfl, fun a ha => ha, ?_⟩
    · intro B hB a ha
      rcases List.mem_cons.1 hB with rfl | hB
      · exact ha
      · exact h.below B hB a ha
    · intro _ T hT hsub
      obtain ⟨E, hE, hTE⟩ := hun T hT (fun a ha _ => hsub a ((ofList_mem _ a).2 ha)) (fun _ _ _ => by simp [assumpsTrue])
      intro a hTa
      apply (ofList_mem _ a).2
      rcases List.mem_cons.1 hE with rfl | hE
      · exact hTE a hTa
      · exact h.below E hE a (hTE a hTa)
    · rw [hdb, db_onClause_same]; simp

theorem wp_increase {C : Prop} {m : MEC} {w : World} {blocked : List (List Nat)} (h : GrowInv m w blocked)
    (hst : m.state = .intermediate) :
    wp C m.computeNext w (fun m' w' => ∃ blocked', GrowInv m' w' blocked' ∧ m'.af = m.af ∧ m'.enc = m.enc ∧
      m'.sid = m.sid ∧ m'.sel = m.sel ∧ (∀ a ∈ m.cur, a ∈ m'.cur) ∧ w'.db m.sid ≠ [] ) :=
  wp_increaseF prefFam_complete h hst

/-- **`compute_maximal`**: from a growing state the result is a preferred extension of the component
that contains the current set -/
theorem wp_computeMaximalF {F : AF → ASet → Prop} (hF : PrefFam F) :
    ∀ (fuel : Nat) (m : MEC) (w : World) (blocked : List (List Nat)),
    GrowInvF F m w blocked →
    wp True (MEC.computeMaximal fuel m) w (fun e _ => Preferred m.af (ofList e) ∧ (∀ a ∈ m.cur, a ∈ e) ∧
      ∀ a ∈ e, a < m.af.n)
  | 0, _, _, _, _ => trivial
  | fuel + 1, m, w, blocked, h => by
    unfold MEC.computeMaximal
    by_cases hmax : m.state = .maximal
    · simp only [hmax, beq_self_eq_true, if_true, Prog.bind_eq]
      rw [wp_bind]
      exact ⟨hF.max_pref h.cur_co (h.max hmax), fun a ha => ha, h.cur_lt⟩
    · have hst : m.state = .intermediate := h.st.resolve_right hmax
      have hne : (m.state == MState.maximal) = false := by rw [hst]; rfl
      simp only [hne, Bool.false_eq_true, if_false, Prog.bind_eq]
      rw [wp_bind]
      refine wp_mono _ _ _ _ ?_ (wp_increaseF hF h hst)
      rintro m' w' ⟨blocked', hG, haf, _, _, _, hsub, _⟩
      refine wp_mono _ _ _ _ ?_ (wp_computeMaximalF hF fuel m' w' blocked' hG)
      rintro e _ ⟨h1, h2, h3⟩
      rw [haf] at h1 h3
      exact ⟨h1, fun a ha => h2 a (hsub a ha), h3⟩

theorem wp_computeMaximal : ∀ (fuel : Nat) (m : MEC) (w : World) (blocked : List (List Nat)),
    GrowInv m w blocked →
    wp True (MEC.computeMaximal fuel m) w (fun e _ => Preferred m.af (ofList e) ∧ (∀ a ∈ m.cur, a ∈ e) ∧
      ∀ a ∈ e, a < m.af.n) :=
  wp_computeMaximalF prefFam_complete

/-- the first step of a fresh computer: the grounded extension -/
theorem GrowInvF_init {F : AF → ASet → Prop} (hF : PrefFam F) {m : MEC} {w : World} (h : MInvF F m w [])
    (hk : m.kind = .preferred) (hgr : GrOK m.af) :
    GrowInvF F { m with cur := groundedV m.af.view, state := .intermediate } w [] :=
  ⟨h.congr_m rfl rfl rfl rfl rfl, hk, Or.inl rfl, hgr.2.1, hF.of_co hgr.1, (fun B hB => by cases hB), (fun hh => by cases hh)⟩

theorem GrowInv_init {m : MEC} {w : World} (h : MInv m w []) (hk : m.kind = .preferred) (hgr : GrOK m.af) :
    GrowInv { m with cur := groundedV m.af.view, state := .intermediate } w [] :=
  GrowInvF_init prefFam_complete h hk hgr

theorem wp_computeMaximal_initF {F : AF → ASet → Prop} (hF : PrefFam F) (fuel : Nat) (m : MEC) (w : World)
    (h : MInvF F m w []) (hk : m.kind = .preferred)
    (hst : m.state = .init) (hgr : GrOK m.af) :
    wp True (MEC.computeMaximal fuel m) w (fun e _ => Preferred m.af (ofList e) ∧ ∀ a ∈ e, a < m.af.n) := by
  cases fuel with
  | zero => trivial
  | succ fuel =>
    unfold MEC.computeMaximal
    have hne : (m.state == MState.maximal) = false := by rw [hst]; rfl
    simp only [hne, Bool.false_eq_true, if_false, Prog.bind_eq]
    rw [wp_bind]
    unfold MEC.computeNext
    rw [hst]
    show wp True (MEC.computeMaximal fuel { m with cur := groundedV m.af.view, state := .intermediate }) w _
    refine wp_mono _ _ _ _ ?_ (wp_computeMaximalF hF fuel _ w [] (GrowInvF_init hF h hk hgr))
    rintro e _ ⟨h1, _, h3⟩
    exact ⟨h1, h3⟩

theorem wp_computeMaximal_init (fuel : Nat) (m : MEC) (w : World) (h : MInv m w []) (hk : m.kind = .preferred)
    (hst : m.state = .init) (hgr : GrOK m.af) :
    wp True (MEC.computeMaximal fuel m) w (fun e _ => Preferred m.af (ofList e) ∧ ∀ a ∈ e, a < m.af.n) :=
  wp_computeMaximal_initF prefFam_complete fuel m w h hk hst hgr

/-- **SE-PR on one component**, for an encoder of a family whose maximal members are the preferred
extensions: a preferred extension of the component's framework -/
theorem wp_prMaximalOfCompF {F : AF → ASet → Prop} (hF : PrefFam F) (cfg : Cfg)
    (hk : ∀ af T, cfg.enc.Base af T ↔ F af T) (c : Comp)
    (hwf : c.af.WF) (hgr : GrOK c.af) (w : World) (hb : w.Bounded) :
    wp True (prMaximalOfComp cfg c) w (fun res w' => w'.Bounded ∧
      ∃ e, res = c.back e ∧ Preferred c.af (ofList e) ∧ ∀ a ∈ e, a < c.af.n) := by
  apply wp_bounded _ _ _ hb
  unfold prMaximalOfComp
  simp only [Prog.bind_eq]
  rw [wp_bind, wp_mkSolver, wp_bind]
  have hlen : w.solvers.length < w.onNew.solvers.length := by simp [World.onNew]
  apply wp_encodeInto _ _ _ _ _ (Bounded_onNew hb) hlen (db_onNew_self w)
  intro w1 henc _
  rw [wp_bind]
  refine wp_mono _ _ _ _ ?_ (wp_MEC_newF henc hwf (hk _) .preferred)
  rintro m w2 ⟨hM, haf, _, _, hkind, hst, _, _⟩
  rw [wp_bind]
  refine wp_mono _ _ _ _ ?_ (wp_computeMaximal_initF hF cfg.fuel m w2 hM hkind hst (by rw [haf]; exact hgr))
  rintro e w3 ⟨h1, h2⟩
  rw [haf] at h1 h2
  exact ⟨e, rfl, h1, h2⟩

/-- **SE-PR on one component**: a preferred extension of the component's framework -/
theorem wp_prMaximalOfComp (cfg : Cfg) (hk : ∀ af T, cfg.enc.Base af T ↔ Complete af T) (c : Comp)
    (hwf : c.af.WF) (hgr : GrOK c.af) (w : World) (hb : w.Bounded) :
    wp True (prMaximalOfComp cfg c) w (fun res w' => w'.Bounded ∧
      ∃ e, res = c.back e ∧ Preferred c.af (ofList e) ∧ ∀ a ∈ e, a < c.af.n) :=
  wp_prMaximalOfCompF prefFam_complete cfg hk c hwf hgr w hb

/-! ## skeptical acceptance (of a disjunction of arguments) by enumeration with discard -/

def Hits (pos : List Nat) (T : ASet) : Prop := ∃ p ∈ pos, T p = true

theorem hits_any (pos cur : List Nat) : pos.any cur.contains = true ↔ Hits pos (ofList cur) := by
  simp [Hits, ofList, List.any_eq_true]

/-- every blocked set lies inside a complete extension that hits the query -/
def AllTop (af : AF) (pos : List Nat) (blocked : List (List Nat)) : Prop :=
  ∀ B ∈ blocked, ∃ D, Complete af D ∧ (∀ a ∈ B, D a = true) ∧ Hits pos D

structure SkInv (m : MEC) (w : World) (blocked : List (List Nat)) (pos : List Nat) : Prop where
  minv : MInv m w blocked
  kind : m.kind = .preferred
  cur_lt : ∀ a ∈ m.cur, a < m.af.n
  cur_co : Complete m.af (ofList m.cur)
  sep : ∀ B ∈ blocked, (∀ a ∈ B, a ∈ m.cur) ∨ ¬ (∀ a ∈ m.cur, a ∈ B)
  top : ∀ B ∈ blocked, (∃ D, Complete m.af D ∧ (∀ a ∈ B, D a = true) ∧ Hits pos D) ∨ (∀ a ∈ B, a ∈ m.cur)

def SkeptOK (af : AF) (pos : List Nat) (allowShortcut : Bool) (res : Bool × Option (List Nat)) : Prop :=
  (res.1 = true → res.2 = none ∧ ∀ P, Preferred af P → Hits pos P) ∧
  (res.1 = false → (∃ P, Preferred af P ∧ ¬ Hits pos P) ∧
    (allowShortcut = false → ∃ e, res.2 = some e ∧ Preferred af (ofList e) ∧ ¬ Hits pos (ofList e) ∧ ∀ a ∈ e, a < af.n))

/-- blocking the current set when it hits the query: every blocked set then has a hitting top -/
theorem SkInv.allTop_after_block {m : MEC} {w : World} {blocked : List (List Nat)} {pos : List Nat}
    (h : SkInv m w blocked pos) (hhit : Hits pos (ofList m.cur)) : AllTop m.af pos (m.cur :: blocked) := by
  intro B hB
  rcases List.mem_cons.1 hB with rfl | hB
  · exact ⟨_, h.cur_co, fun a ha => (ofList_mem _ a).2 ha, hhit⟩
  · rcases h.top B hB with hD | hsub
    · exact hD
    · exact ⟨_, h.cur_co, fun a ha => (ofList_mem _ a).2 (hsub a ha), hhit⟩

/-- a fresh search (`¬selector` alone) when every blocked set has a hitting top -/
theorem wp_newSearch {C : Prop} {m : MEC} {w : World} {blocked : List (List Nat)} {pos : List Nat}
    (hM : MInv m w blocked) (hk : m.kind = .preferred) (htop : AllTop m.af pos blocked) :
    wp C m.newSearch w (fun m' w' =>
      m'.af = m.af ∧ m'.enc = m.enc ∧ m'.sid = m.sid ∧ m'.kind = m.kind ∧
      ((m'.state = .intermediate ∧ SkInv m' w' blocked pos) ∨
       (m'.state = .none ∧ MInv m' w' blocked ∧ ∀ P, Preferred m.af P → Hits pos P))) := by
  unfold MEC.newSearch
  simp only [Prog.bind_eq]
  rw [wp_bind]
  have happ : [nl m.sel] = inL m.enc m.af.n [] ++ [nl m.sel] ++ [] := by simp [inL]
  rw [happ]
  apply wp_MEC_solve hM [] []
  · intro mdl w' hM' _ hco _ hblk _
    refine ⟨rfl, rfl, rfl, rfl, Or.inl ⟨rfl, hM'.congr_m rfl rfl rfl rfl rfl, hk, ?_, hco, ?_, ?_⟩⟩
    · intro a ha; exact hco.1.1.1 a ((ofList_mem _ a).2 ha)
    · intro B hB
      right
      intro hsub
      exact hblk B hB (fun a ha => hsub a ((ofList_mem _ a).1 ha))
    · intro B hB; exact Or.inl (htop B hB)
  · intro w' hM' _ hun
    refine ⟨rfl, rfl, rfl, rfl, Or.inr ⟨rfl, hM'.congr_m rfl rfl rfl rfl rfl, ?_⟩⟩
    intro P hP
    obtain ⟨E, hE, hPE⟩ := hun P (preferred_complete hP) (fun a ha => by cases ha) (fun _ _ _ => by simp [assumpsTrue])
    obtain ⟨D, hD, hED, hhit⟩ := htop E hE
    have hPD : SubsetS P D := fun a ha => hED a (hPE a ha)
    have hDP := hP.2 D hD.1 hPD
    obtain ⟨p, hp, hDp⟩ := hhit
    exact ⟨p, hp, hDP p hDp⟩

/-- the increase step from an intermediate set -/
theorem wp_increase_sk {C : Prop} {m : MEC} {w : World} {blocked : List (List Nat)} {pos : List Nat}
    (h : SkInv m w blocked pos) (hst : m.state = .intermediate) :
    wp C m.computeNext w (fun m' w' =>
      m'.af = m.af ∧ m'.enc = m.enc ∧ m'.sid = m.sid ∧ m'.sel = m.sel ∧
      ((m'.state = .intermediate ∧ SkInv m' w' (m.cur :: blocked) pos) ∨
       (m'.state = .maximal ∧ m'.cur = m.cur ∧ SkInv m' w' (m.cur :: blocked) pos ∧ Preferred m.af (ofList m.cur)))) := by
  unfold MEC.computeNext
  rw [hst]
  simp only [Prog.bind_eq, blockAndAssume_pref h.kind]
  rw [wp_bind, wp_addClause1, wp_bind]
  have hM := h.minv.block m.cur
  have happ : inL m.enc m.af.n m.cur ++ [nl m.sel] = inL m.enc m.af.n m.cur ++ [nl m.sel] ++ [] := by simp
  rw [happ]
  apply wp_MEC_solve hM m.cur []
  · intro mdl w' hM' _ hco hmust hblk _
    refine ⟨rfl, rfl, rfl, rfl, Or.inl ⟨rfl, hM'.congr_m rfl rfl rfl rfl rfl, h.kind, ?_, hco, ?_, ?_⟩⟩
    · intro a ha; exact hco.1.1.1 a ((ofList_mem _ a).2 ha)
    · intro B hB
      right
      intro hsub
      exact hblk B hB (fun a ha => hsub a ((ofList_mem _ a).1 ha))
    · intro B hB
      rcases List.mem_cons.1 hB with rfl | hB
      · exact Or.inr (fun a ha => hmust a ha (h.cur_lt a ha))
      · rcases h.top B hB with hD | hsub
        · exact Or.inl hD
        · exact Or.inr (fun a ha => hmust a (hsub a ha) (h.cur_lt a (hsub a ha)))
  · intro w' hM' _ hun
    have hpref : Preferred m.af (ofList m.cur) := by
      apply preferred_of_max_complete h.cur_co
      intro T hT hsub
      obtain ⟨E, hE, hTE⟩ := hun T hT (fun a ha _ => hsub a ((ofList_mem _ a).2 ha)) (fun _ _ _ => by simp [assumpsTrue])
      intro a hTa
      apply (ofList_mem _ a).2
      rcases List.mem_cons.1 hE with rfl | hE
      · exact hTE a hTa
      · rcases h.sep E hE with h1 | h1
        · exact h1 a (hTE a hTa)
        · exact absurd (fun a ha => hTE a (hsub a ((ofList_mem _ a).2 ha))) h1
    refine ⟨rfl, rfl, rfl, rfl, Or.inr ⟨rfl, rfl, ⟨hM'.congr_m rfl rfl rfl rfl rfl, h.kind, h.cur_lt, h.cur_co, ?_, ?_⟩, hpref⟩⟩
    · intro B hB
      rcases List.mem_cons.1 hB with rfl | hB
      · exact Or.inl (fun a ha => ha)
      · exact h.sep B hB
    · intro B hB
      rcases List.mem_cons.1 hB with rfl | hB
      · exact Or.inr (fun a ha => ha)
      · exact h.top B hB

/-- the states in which the skeptical loop starts an iteration -/
def LInv (m : MEC) (w : World) (pos : List Nat) : Prop :=
  m.kind = .preferred ∧
  ((m.state = .init ∧ MInv m w [] ∧ GrOK m.af) ∨
   (m.state = .intermediate ∧ ∃ blocked, SkInv m w blocked pos) ∨
   (m.state = .justDiscarded ∧ ∃ blocked, MInv m w blocked ∧ AllTop m.af pos blocked) ∨
   (m.state = .maximal ∧ ∃ blocked, SkInv m w blocked pos ∧ Hits pos (ofList m.cur)))

/-- what `compute_next` leaves: an intermediate set, a preferred extension, or the proof that all
preferred extensions hit the query -/
def AfterNext (af : AF) (m' : MEC) (w' : World) (pos : List Nat) : Prop :=
  m'.af = af ∧ m'.kind = .preferred ∧
  ((m'.state = .intermediate ∧ ∃ blocked, SkInv m' w' blocked pos) ∨
   (m'.state = .maximal ∧ (∃ blocked, SkInv m' w' blocked pos) ∧ Preferred af (ofList m'.cur)) ∨
   (m'.state = .none ∧ ∀ P, Preferred af P → Hits pos P))

theorem wp_next_sk {C : Prop} {m : MEC} {w : World} {pos : List Nat} (h : LInv m w pos) :
    wp C m.computeNext w (fun m' w' => AfterNext m.af m' w' pos) := by
  obtain ⟨hk, hcase⟩ := h
  rcases hcase with ⟨hst, hM, hgr⟩ | ⟨hst, blocked, hS⟩ | ⟨hst, blocked, hM, htop⟩ | ⟨hst, blocked, hS, hhit⟩
  · unfold MEC.computeNext
    rw [hst]
    refine ⟨rfl, hk, Or.inl ⟨rfl, [], hM.congr_m rfl rfl rfl rfl rfl, hk, hgr.2.1, hgr.1, ?_, ?_⟩⟩
    · intro B hB; cases hB
    · intro B hB; cases hB
  · refine wp_mono _ _ _ _ ?_ (wp_increase_sk hS hst)
    rintro m' w' ⟨haf, _, _, _, hcase⟩
    rcases hcase with ⟨hst', hS'⟩ | ⟨hst', _, hS', hpref⟩
    · exact ⟨haf, hS'.kind, Or.inl ⟨hst', _, hS'⟩⟩
    · refine ⟨haf, hS'.kind, Or.inr (Or.inl ⟨hst', ⟨_, hS'⟩, ?_⟩)⟩
      rename_i hcur
      rw [hcur]; exact hpref
  · unfold MEC.computeNext
    rw [hst]
    refine wp_mono _ _ _ _ ?_ (wp_newSearch hM hk htop)
    rintro m' w' ⟨haf, _, _, _, hcase⟩
    rcases hcase with ⟨hst', hS'⟩ | ⟨hst', _, hall⟩
    · exact ⟨haf, hS'.kind, Or.inl ⟨hst', _, hS'⟩⟩
    · rename_i hkk _
      exact ⟨haf, by rw [hkk]; exact hk, Or.inr (Or.inr ⟨hst', hall⟩)⟩
  · unfold MEC.computeNext
    rw [hst]
    simp only [Prog.bind_eq, blockAndAssume_pref hk]
    rw [wp_bind, wp_addClause1]
    refine wp_mono _ _ _ _ ?_ (wp_newSearch (hS.minv.block m.cur) hk (hS.allTop_after_block hhit))
    rintro m' w' ⟨haf, _, _, _, hcase⟩
    rcases hcase with ⟨hst', hS'⟩ | ⟨hst', _, hall⟩
    · exact ⟨haf, hS'.kind, Or.inl ⟨hst', _, hS'⟩⟩
    · rename_i hkk _
      exact ⟨haf, by rw [hkk]; exact hk, Or.inr (Or.inr ⟨hst', hall⟩)⟩

theorem wp_drop {C : Prop} (m : MEC) (w : World) (Q : Unit → World → Prop) :
    wp C m.drop w Q ↔ Q () (w.onClause m.sid [pl m.sel]) := Iff.rfl

/-- **the skeptical loop**: for every fuel, from any loop state -/
theorem wp_prSkeptLoop (sc : Bool) (pos : List Nat) : ∀ (fuel : Nat) (m : MEC) (w : World), LInv m w pos →
    wp True (prSkeptLoop sc pos fuel m) w (fun res _ => SkeptOK m.af pos sc res)
  | 0, _, _, _ => trivial
  | fuel + 1, m, w, h => by
    unfold prSkeptLoop
    simp only [Prog.bind_eq]
    rw [wp_bind]
    refine wp_mono _ _ _ _ ?_ (wp_next_sk h)
    rintro m' w' ⟨haf, hk', hcase⟩
    rcases hcase with ⟨hst, blocked, hS⟩ | ⟨hst, ⟨blocked, hS⟩, hpref⟩ | ⟨hst, hall⟩
    · -- intermediate
      rw [hst]
      simp only
      by_cases hhit : pos.any m'.cur.contains = true
      · rw [if_pos hhit]
        unfold MEC.discardCurrentSearch
        simp only [Prog.bind_eq, blockAndAssume_pref hk']
        rw [wp_bind, wp_bind, wp_addClause1]
        have hL : LInv { m' with state := .justDiscarded } (w'.onClause m'.sid (outL m'.enc m'.af.n m'.cur ++ [pl m'.sel])) pos :=
          ⟨hk', Or.inr (Or.inr (Or.inl ⟨rfl, m'.cur :: blocked, (hS.minv.block m'.cur).congr_m rfl rfl rfl rfl rfl,
            hS.allTop_after_block ((hits_any _ _).1 hhit)⟩))⟩
        have := wp_prSkeptLoop sc pos fuel _ _ hL
        show wp True (prSkeptLoop sc pos fuel { m' with state := .justDiscarded }) _ _
        refine wp_mono _ _ _ _ ?_ this
        intro res _ hh
        have e : ({ m' with state := MState.justDiscarded } : MEC).af = m.af := haf
        rw [← e]; exact hh
      · rw [if_neg hhit]
        by_cases hsc : (sc && pos.all (fun a => (m'.af.attackers a).any m'.cur.contains)) = true
        · rw [if_pos hsc]
          rw [wp_bind, wp_drop]
          simp only [Bool.and_eq_true, List.all_eq_true, List.any_eq_true] at hsc
          obtain ⟨hsc1, hsc2⟩ := hsc
          unfold SkeptOK
          refine ⟨fun hf => by simp at hf, fun _ => ⟨?_, fun hf => by rw [hsc1] at hf; cases hf⟩⟩
          obtain ⟨P, hP, hsub⟩ := exists_preferred_superset hS.cur_co.1
          rw [haf] at hP
          refine ⟨P, hP, ?_⟩
          rintro ⟨p, hp, hPp⟩
          obtain ⟨b, hb, hbc⟩ := hsc2 p hp
          have hatt : (b, p) ∈ m'.af.atts := by
            unfold AF.attackers at hb
            obtain ⟨q, hq, rfl⟩ := List.mem_map.1 hb
            obtain ⟨hq1, hq2⟩ := List.mem_filter.1 hq
            have : q.2 = p := by simpa using hq2
            rw [← this]; exact hq1
          have hbP : P b = true := hsub b (by simpa [ofList] using hbc)
          rw [← haf] at hP
          exact hP.1.1.2 p hPp ⟨b, hatt, hbP⟩
        · rw [if_neg hsc]
          have hL : LInv m' w' pos := ⟨hk', Or.inr (Or.inl ⟨hst, blocked, hS⟩)⟩
          have := wp_prSkeptLoop sc pos fuel _ _ hL
          refine wp_mono _ _ _ _ ?_ this
          intro res _ hh
          rw [← haf]; exact hh
    · -- maximal
      rw [hst]
      simp only
      by_cases hhit : pos.any m'.cur.contains = true
      · simp only [hhit, Bool.not_true, Bool.false_eq_true, if_false]
        have hL : LInv m' w' pos := ⟨hk', Or.inr (Or.inr (Or.inr ⟨hst, blocked, hS, (hits_any _ _).1 hhit⟩))⟩
        have := wp_prSkeptLoop sc pos fuel _ _ hL
        refine wp_mono _ _ _ _ ?_ this
        intro res _ hh
        rw [← haf]; exact hh
      · have : (!pos.any m'.cur.contains) = true := by simpa using hhit
        rw [if_pos this]
        rw [wp_bind, wp_drop]
        have hnh : ¬ Hits pos (ofList m'.cur) := fun hh => hhit ((hits_any _ _).2 hh)
        unfold SkeptOK
        refine ⟨fun hf => by simp at hf, fun _ => ⟨⟨_, hpref, hnh⟩, fun _ => ⟨_, rfl, hpref, hnh, ?_⟩⟩⟩
        rw [← haf]; exact hS.cur_lt
    · -- none
      rw [hst]
      simp only
      rw [wp_bind, wp_drop]
      unfold SkeptOK
      exact ⟨fun _ => ⟨rfl, hall⟩, fun hf => by simp at hf⟩

/-- **DS-PR inside the merged component** -/
theorem wp_prSkeptInCc (cfg : Cfg) (hk : ∀ af T, cfg.enc.Base af T ↔ Complete af T) (c : Comp) (args : List Nat)
    (sc : Bool) (hwf : c.af.WF) (hgr : GrOK c.af) (w : World) (hb : w.Bounded) :
    wp True (prSkeptInCc cfg c args sc) w (fun res w' => w'.Bounded ∧
      ∀ pos, posAll c args = some pos → SkeptOK c.af pos sc res) := by
  apply wp_bounded _ _ _ hb
  unfold prSkeptInCc
  simp only [Prog.bind_eq]
  rw [wp_bind]
  apply wp_ccArgs trivial
  intro pos hpos
  rw [wp_bind, wp_mkSolver, wp_bind]
  have hlen : w.solvers.length < w.onNew.solvers.length := by simp [World.onNew]
  apply wp_encodeInto _ _ _ _ _ (Bounded_onNew hb) hlen (db_onNew_self w)
  intro w1 henc _
  rw [wp_bind]
  refine wp_mono _ _ _ _ ?_ (wp_MEC_new henc hwf (hk _) .preferred)
  rintro m w2 ⟨hM, haf, _, _, hkind, hst, _, _⟩
  have hL : LInv m w2 pos := ⟨hkind, Or.inl ⟨hst, hM, by rw [haf]; exact hgr⟩⟩
  refine wp_mono _ _ _ _ ?_ (wp_prSkeptLoop sc pos cfg.fuel m w2 hL)
  intro res _ hres pos' hpos'
  rw [hpos] at hpos'; injection hpos' with hpos'; subst hpos'
  rw [haf] at hres
  exact hres

end Crusta
