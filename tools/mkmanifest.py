#!/usr/bin/env python3
"""Regenerates MANIFEST.json from the registry in tools/manifest_data.py."""
import json, os, sys
sys.path.insert(0, os.path.dirname(os.path.abspath(__file__)))
import manifest_data as md

ALL = ["C%02d" % i for i in range(1, 20)]
checks = []
for pid in ALL:
    if pid in md.CLAIMED:
        c = md.CLAIMED[pid]
        checks.append({
            "property_id": pid,
            "quick_cmd": "./check %s --tier quick" % pid,
            "thorough_cmd": "./check %s --tier thorough" % pid,
            "evidence_file": "/verif/evidence/%s.json" % pid,
            "replay_cmd_template": "./check %s --replay {path}" % pid,
            "engine": "crusta-lean",
            "level_claimed": {"category": "proof", "text": c["text"], "design_ref": c.get("design_ref", "DESIGN.md §6 " + pid)},
            "level_note": c["note"],
            "technique": c["technique"],
        })
na = [{"property_id": pid, "reason": md.NOT_APPLICABLE.get(pid, "check not built yet (work in progress; will be claimed once its model, theorems and correspondence exist)")}
      for pid in ALL if pid not in md.CLAIMED]
m = {
    "version": 1,
    "setup_cmd": "./check --setup",
    "hooks": {
        "guard": "crustabri_verif",
        "enable": "RUSTFLAGS='--cfg crustabri_verif' (set by tools/common.py for every cargo build of /repo and of the harness)",
        "baseline_off_cmd": "cd /repo && cargo nextest run --workspace --no-fail-fast --offline",
        "source_commits": md.HOOK_COMMITS,
        "add_only": True,
    },
    "engines": [{"name": "crusta-lean", "path": "/verif/lean", "serves_properties": sorted(md.CLAIMED),
                 "kind_free_text": "Lean 4 model + theorems (lake project Crusta), native driver for the executable model, Rust harness /verif/harness for the differential correspondence, python orchestrator /verif/tools"}],
    "checks": checks,
    "notes": md.NOTES,
    "not_applicable": na,
}
json.dump(m, open(os.path.join(os.path.dirname(os.path.dirname(os.path.abspath(__file__))), "MANIFEST.json"), "w"), indent=1)
print("claimed:", sorted(md.CLAIMED))
