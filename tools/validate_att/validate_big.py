#!/usr/bin/env python3
"""Same comparison as validate.py on larger label universes (8-12 labels): more reserved variables get used."""
import sys, random, subprocess
sys.path.insert(0, '/verif/tools')
from props_dyn import gen_history, impl_stream, model_stream, FACTORS
import validate as V  # reuse blocks()

class BigRng(random.Random):
    def randint(self, a, b):
        if (a, b) == (3, 7):
            return super().randint(8, 12)
        return super().randint(a, b)

def main():
    seed = int(sys.argv[1]) if len(sys.argv) > 1 else 5
    per = int(sys.argv[2]) if len(sys.argv) > 2 else 500
    rng = BigRng(seed)
    cases = []
    for kind in ("co_att", "st_att"):
        for i in range(per):
            toks = gen_history(rng, kind, rng.randint(20, 80), 0.0 if i % 2 == 0 else 0.15)
            cases.append("dyn %s%d kind=%s factor=%s trace=1 hist=%s" % (kind[:2], i, kind, rng.choice(FACTORS), ";".join(toks)))
    ho = subprocess.run([V.VH], input="\n".join(cases) + "\n", capture_output=True, text=True).stdout
    do = subprocess.run([V.DRV], input=ho, capture_output=True, text=True).stdout
    hb, db = V.blocks(ho), V.blocks(do)
    ev = mism = bad = maxn = 0
    for c in cases:
        cid = c.split(' ')[1]
        a = impl_stream(hb.get(cid, []))
        b, stopped = model_stream(db.get(cid, []))
        if stopped:
            a = a[:len(b)]
        ev += len(b)
        for l in hb.get(cid, []):
            if l.startswith('fw n='):
                maxn = max(maxn, int(l.split(' ')[1][2:]))
        if a != b:
            mism += 1
            if mism < 4:
                print("MISMATCH", c)
        bad += len([x for x in db.get(cid, []) if x.startswith('verdict BAD') or x.startswith('verdict PANIC')])
    print("big universes: cases %d, events compared %d, max live arguments %d, mismatches %d, bad verdicts %d" % (len(cases), ev, maxn, mism, bad))

if __name__ == '__main__':
    main()
