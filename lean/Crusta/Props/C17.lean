import Crusta.Proofs.Prog
import Crusta.Model.Solvers
import Crusta.Model.Dyn
import Crusta.Model.DynAtt

/-!
# C17 — a failing SAT backend never turns into an answer (property theorems)

Every public entry point of every static solver is a `Prog` (`entryProg`), whose `solve` nodes hand
the continuation only `some model` / `none`; an `unknown` reply is turned into `abort` by the
interpreter — the model of `SolvingResult::unwrap_model`, through which all solve sites go.  The
theorems quantify over **all** solvers, encoders, frameworks, queries and reply lists.
-/

namespace Crusta.C17
open Crusta

/-- If the backend answers `unknown` at the call the run has reached, the query is aborted:
no status, no certificate — for every solver entry point, framework, query and reply history. -/
theorem unknown_at_any_call_aborts (sk : SolverKind) (cfg : Cfg) (v : FwView) (e : Entry)
    (p : Prog Ans) (_hp : entryProg sk cfg v e = some p)
    (pre post : List Reply) (w : World) (h : ∃ w1, interp p pre w = (.starved, w1)) :
    ∃ w2, interp p (pre ++ Reply.unknown :: post) w = (.abort, w2) :=
  unknown_aborts p pre post w h

/-- Conversely, a run that produced an answer consumed no `unknown` reply (and exactly as many
replies as it made SAT calls). -/
theorem answer_implies_no_unknown (sk : SolverKind) (cfg : Cfg) (v : FwView) (e : Entry)
    (p : Prog Ans) (_hp : entryProg sk cfg v e = some p)
    (rs : List Reply) (w w' : World) (a : Ans) (h : interp p rs w = (.done a, w')) :
    w'.calls - w.calls ≤ rs.length ∧ Reply.unknown ∉ rs.take (w'.calls - w.calls) :=
  done_consumed_no_unknown p rs w w' a h

/-- the statement holds for any program whatsoever: it is a property of the interface, so a new
solve site written against it cannot convert a failure into an answer -/
theorem any_program {α : Type} (p : Prog α) (pre post : List Reply) (w : World)
    (h : ∃ w1, interp p pre w = (.starved, w1)) :
    ∃ w2, interp p (pre ++ Reply.unknown :: post) w = (.abort, w2) :=
  unknown_aborts p pre post w h

/-- the dynamic solvers (argument-indexed, all three semantics): an `unknown` reply at the call a
query has reached aborts that query — whatever the state the update history left behind -/
theorem dynamic_query_unknown_aborts (fuel : Nat) (d : Dyn.DState) (q : Dyn.DQuery) (l : Nat)
    (pre post : List Reply) (w : World)
    (h : ∃ w1, interp (Dyn.query fuel d q l) pre w = (.starved, w1)) :
    ∃ w2, interp (Dyn.query fuel d q l) (pre ++ Reply.unknown :: post) w = (.abort, w2) :=
  unknown_aborts _ pre post w h

/-- the attack-assumption dynamic solvers -/
theorem dynamic_attacks_query_unknown_aborts (d : DynAtt.ADState) (q : Dyn.DQuery) (l : Nat)
    (pre post : List Reply) (w : World)
    (h : ∃ w1, interp (DynAtt.query d q l) pre w = (.starved, w1)) :
    ∃ w2, interp (DynAtt.query d q l) (pre ++ Reply.unknown :: post) w = (.abort, w2) :=
  unknown_aborts _ pre post w h

/-- and a dynamic query that did return consumed no `unknown` reply -/
theorem dynamic_answer_implies_no_unknown (fuel : Nat) (d : Dyn.DState) (q : Dyn.DQuery) (l : Nat)
    (rs : List Reply) (w w' : World) (a : Dyn.DState × AccAns)
    (h : interp (Dyn.query fuel d q l) rs w = (.done a, w')) :
    w'.calls - w.calls ≤ rs.length ∧ Reply.unknown ∉ rs.take (w'.calls - w.calls) :=
  done_consumed_no_unknown _ rs w w' a h

/-- non-vacuity: the stable single-extension program on a one-argument framework asks for a reply -/
example : ∃ p, entryProg .ST ⟨.stb, 10⟩ (AF.view ⟨1, []⟩) .se = some p := ⟨_, rfl⟩

end Crusta.C17
