//! EquivalencyComputer family (C19).
use crate::{fw, util};
use crustabri::utils::EquivalencyComputer;
use std::collections::HashMap;
use std::panic::{catch_unwind, AssertUnwindSafe};

/// `equiv <id> fw=<compact spec>`
pub fn run(_id: &str, p: &HashMap<String, String>, out: &mut Vec<String>) {
    let af = fw::build(&p["fw"]);
    out.push(fw::dump_dense(&af));
    let r = catch_unwind(AssertUnwindSafe(|| {
        let mut lines = Vec::new();
        let ec = EquivalencyComputer::new(&af);
        let red = ec.reduced_af();
        // classes through the public mapping: for each reduced argument its initial arguments
        let classes = red
            .argument_set()
            .iter()
            .map(|r| {
                format!(
                    "{}:{}",
                    r.id(),
                    util::join(&ec.reduced_arg_to_init_args(r).iter().map(|a| a.id()).collect::<Vec<_>>(), ".")
                )
            })
            .collect::<Vec<_>>()
            .join(",");
        lines.push(format!("Q classes={}", classes));
        let i2r = af
            .argument_set()
            .iter()
            .map(|a| {
                let r = ec.init_to_reduced_arg(a);
                format!("{}:{}", a.id(), r.id())
            })
            .collect::<Vec<_>>()
            .join(",");
        lines.push(format!("Q i2r={}", i2r));
        // reduced framework: labels are labels of the first member of each class
        let rl = red.argument_set().iter().map(|a| a.label().to_string()).collect::<Vec<_>>().join(",");
        let ra = red
            .iter_attacks()
            .map(|t| format!("{}>{}", t.attacker().id(), t.attacked().id()))
            .collect::<Vec<_>>()
            .join(",");
        lines.push(format!("Q reduced n={} labels={} atts={}", red.n_arguments(), rl, ra));
        lines
    }));
    match r {
        Ok(l) => out.extend(l),
        Err(e) => out.push(format!("panic {}", util::panic_msg(e))),
    }
    out.push("end".to_string());
}
