import Crusta.Proofs.SolveCalls
import Crusta.Proofs.SolveRG

/-!
# C18 on the `Prog` models, range-based semantics (semi-stable, stage): termination and SAT-call
bound on one component

A *search* of the range computer starts with the grounded extension or with the SAT reply of
`new_search` and increases the current range `R` until UNSAT: the range strictly grows at every SAT
reply, so a search makes at most `n + 1` calls (`n` when it was started by a SAT reply, whose range is
not empty because it is not inside a blocked range), plus the call that started it, plus the
acceptance check at its end: `n + 2` calls per search.  A search ends in a range-maximal member of
the family whose range is then blocked: the ends of the searches are pairwise different members of
the family (`found`).  One last UNSAT call ends the enumeration: `(n + 2)·|base| + 1` calls.
-/

namespace Crusta
open Prog (mkSolver doReserve addClause addClauses getNVars doSolve)

/-! ## the measure of an increasing range -/

theorem filter_out_le' (l : List Nat) (S T : Nat → Bool) (h : ∀ a ∈ l, S a = true → T a = true) :
    (l.filter (fun a => !T a)).length ≤ (l.filter (fun a => !S a)).length := by
  induction l with
  | nil => simp
  | cons a t ih =>
    have ih' := ih (fun x hx => h x (List.mem_cons_of_mem _ hx))
    have ha := h a List.mem_cons_self
    simp only [List.filter_cons]
    cases hT : T a <;> cases hS : S a
    · simp; omega
    · have := ha hS; rw [hT] at this; cases this
    · simp; omega
    · simp; omega

theorem filter_out_lt' (l : List Nat) (S T : Nat → Bool) (h : ∀ a ∈ l, S a = true → T a = true) {a : Nat}
    (ha : a ∈ l) (hT : T a = true) (hS : S a = false) :
    (l.filter (fun a => !T a)).length < (l.filter (fun a => !S a)).length := by
  induction l with
  | nil => cases ha
  | cons b t ih =>
    have hle := filter_out_le' t S T (fun x hx => h x (List.mem_cons_of_mem _ hx))
    simp only [List.filter_cons]
    rcases List.mem_cons.1 ha with rfl | ha'
    · simp [hT, hS]; omega
    · have ih' := ih (fun x hx => h x (List.mem_cons_of_mem _ hx)) ha'
      have hb := h b List.mem_cons_self
      cases hTb : T b <;> cases hSb : S b
      · simp; omega
      · have := hb hSb; rw [hTb] at this; cases this
      · simp; omega
      · simp; omega

theorem outside_lt_of_grow (n : Nat) (R R' : Nat → Bool) (hsub : ∀ a, a < n → R a = true → R' a = true)
    {a : Nat} (ha : a < n) (hR : R a = false) (hR' : R' a = true) : outside n R' + 1 ≤ outside n R := by
  unfold outside
  exact filter_out_lt' (List.range n) R R' (fun x hx => hsub x (List.mem_range.1 hx)) (List.mem_range.2 ha) hR' hR

theorem outside_lt_of_mem (n : Nat) (R : Nat → Bool) {a : Nat} (ha : a < n) (hR : R a = true) :
    outside n R + 1 ≤ n := by
  have := outside_lt_of_grow n (fun _ => false) R (fun _ _ h => by cases h) ha rfl hR
  have e : outside n (fun _ => false) = n := by
    unfold outside
    have e2 : List.filter (fun a => !(fun (_ : Nat) => false) a) (List.range n) = List.range n :=
      List.filter_eq_self.2 (fun _ _ => rfl)
    rw [e2]; exact List.length_range
  omega

/-! ## freshness of the SAT replies of the range computer -/

theorem wp_rincrease_fresh {C : Prop} {m : MEC} {w : World} {blocked : List (Nat → Bool)} (h : RInv m w blocked)
    (hst : m.state = .intermediate) :
    wp C m.computeNext w (fun m' _ => m'.state = .intermediate →
      (∀ a, a < m.af.n → m.inR a = true → m'.inR a = true) ∧
      ∀ B ∈ m.inR :: blocked, ∃ a, a < m.af.n ∧ B a = false ∧ m'.inR a = true) := by
  unfold MEC.computeNext
  rw [hst]
  simp only [Prog.bind_eq, blockAndAssume_rg h.kind]
  rw [wp_bind, wp_addClause1, wp_bind]
  have hM := h.block m.inR
  apply wp_rsolve hM
  · intro mdl w' hM' _ hΓ hA hin _
    obtain ⟨hA1, hA2⟩ := (assumps_rin _ _ _ _ _).1 hA
    obtain ⟨_, _, h3⟩ := hM'.sat hΓ
    refine ⟨fun a ha hR => ?_, fun B hB => ?_⟩
    · show inRModel m.enc m.af.n mdl a = true
      rw [hin a ha]; exact hA1 a ha hR
    · obtain ⟨a, ha, hBa, hν⟩ := h3 hA2 B hB
      refine ⟨a, ha, hBa, ?_⟩
      show inRModel m.enc m.af.n mdl a = true
      rw [hin a ha]; exact hν
  · intro w' _ _ _ hmax
    cases hmax

theorem wp_rnewSearch_fresh {C : Prop} {m : MEC} {w : World} {blocked : List (Nat → Bool)} (h : RInv m w blocked) :
    wp C m.newSearch w (fun m' _ => m'.state = .intermediate →
      ∀ B ∈ blocked, ∃ a, a < m.af.n ∧ B a = false ∧ m'.inR a = true) := by
  unfold MEC.newSearch
  simp only [Prog.bind_eq]
  rw [wp_bind]
  apply wp_rsolve h
  · intro mdl w' hM' _ hΓ hA hin _
    have hsel : asgOfModel mdl m.sel = false := by simpa [assumpsTrue] using hA
    obtain ⟨_, _, h3⟩ := hM'.sat hΓ
    intro B hB
    obtain ⟨a, ha, hBa, hν⟩ := h3 hsel B hB
    refine ⟨a, ha, hBa, ?_⟩
    show inRModel m.enc m.af.n mdl a = true
    rw [hin a ha]; exact hν
  · intro w' _ _ _ hmax
    cases hmax

/-- the increase step with the bookkeeping: exactly one call; the range strictly grows, or the
current set is range-maximal and the current range is its range -/
theorem wp_rincrease_cnt {m : MEC} {w : World} {blocked : List (Nat → Bool)} {P : ASet → Prop}
    (h : RSk m w blocked P) (hst : m.state = .intermediate) :
    wp False m.computeNext w (fun m' w' =>
      m'.af = m.af ∧ m'.enc = m.enc ∧ w'.calls = w.calls + 1 ∧
      ((m'.state = .intermediate ∧ RSk m' w' (m.inR :: blocked) P ∧
          outside m.af.n m'.inR + 1 ≤ outside m.af.n m.inR ∧
          ∀ B ∈ m.inR :: blocked, ∃ a, a < m.af.n ∧ B a = false ∧ m'.inR a = true) ∨
       (m'.state = .maximal ∧ m'.cur = m.cur ∧ m'.inR = m.inR ∧ RSk m' w' (m.inR :: blocked) P ∧
          ∀ a, a < m.af.n → InRange m.af (ofList m.cur) a → m.inR a = true))) := by
  refine wp_mono _ _ _ _ ?_ (wp_andT _ _ _ _ (wp_andT _ _ _ _ (wp_rincrease (C := False) h hst)
    (wp_rincrease_fresh (C := True) h.rinv hst)) (wp_computeNext_calls m w))
  rintro m' w' ⟨⟨⟨haf, henc, hcase⟩, hfresh⟩, _, _, hc⟩
  refine ⟨haf, henc, hc (by rw [hst]; intro hh; cases hh), ?_⟩
  rcases hcase with ⟨hst', hS'⟩ | ⟨hst', hcur, hinR, hS', _, hex⟩
  · obtain ⟨hsub, hblk⟩ := hfresh hst'
    obtain ⟨a, ha, hRa, hR'a⟩ := hblk m.inR List.mem_cons_self
    exact Or.inl ⟨hst', hS', outside_lt_of_grow _ _ _ hsub ha hRa hR'a, hblk⟩
  · exact Or.inr ⟨hst', hcur, hinR, hS', hex⟩

/-! ## SE-SST / SE-STG: `compute_maximal` -/

def growMeasureR (m : MEC) : Nat :=
  if m.state = .maximal then 0 else outside m.af.n m.inR + 1

theorem rcomputeMaximal_calls {P : ASet → Prop} : ∀ (fuel : Nat) (m : MEC) (w : World),
    ((m.state = .intermediate ∧ ∃ blocked, RSk m w blocked P) ∨ m.state = .maximal) →
    fuel ≥ growMeasureR m + 1 →
    wp False (MEC.computeMaximal fuel m) w (fun _ w' => w'.calls ≤ w.calls + growMeasureR m)
  | 0, _, _, _, hf => by omega
  | fuel + 1, m, w, h, hf => by
    unfold MEC.computeMaximal
    rcases h with ⟨hst, blocked, hS⟩ | hst
    · have hne : (m.state == MState.maximal) = false := by rw [hst]; rfl
      simp only [hne, Bool.false_eq_true, if_false, Prog.bind_eq]
      rw [wp_bind]
      have e1 : growMeasureR m = outside m.af.n m.inR + 1 := by
        unfold growMeasureR
        rw [if_neg (by rw [hst]; intro hh; cases hh)]
      rw [e1] at hf ⊢
      refine wp_mono _ _ _ _ ?_ (wp_rincrease_cnt hS hst)
      rintro m' w' ⟨haf, _, hc, hcase⟩
      rcases hcase with ⟨hst', hS', hout, _⟩ | ⟨hst', _, _, _, _⟩
      · have e2 : growMeasureR m' = outside m.af.n m'.inR + 1 := by
          unfold growMeasureR
          rw [if_neg (by rw [hst']; intro hh; cases hh), haf]
        refine wp_mono _ _ _ _ ?_ (rcomputeMaximal_calls (P := P) fuel m' w' (Or.inl ⟨hst', _, hS'⟩)
          (by rw [e2]; omega))
        intro _ w'' hw''
        have : w''.calls ≤ w'.calls + growMeasureR m' := hw''
        rw [e2] at this
        omega
      · have e2 : growMeasureR m' = 0 := by
          unfold growMeasureR
          rw [if_pos hst']
        refine wp_mono _ _ _ _ ?_ (rcomputeMaximal_calls (P := P) fuel m' w' (Or.inr hst') (by rw [e2]; omega))
        intro _ w'' hw''
        have : w''.calls ≤ w'.calls + growMeasureR m' := hw''
        rw [e2] at this
        omega
    · simp only [hst, beq_self_eq_true, if_true, Prog.bind_eq]
      rw [wp_bind]
      show (w.onClause m.sid [pl m.sel]).calls ≤ _
      simp

/-- **SE-SST / SE-STG on one component terminates** (fuel `n + 3`) **within `n + 1` SAT calls** -/
theorem rgMaximalOfComp_calls (cfg : Cfg) (hk : RangeEnc cfg.enc) (c : Comp) (hwf : c.af.WF) (hgr : GrOK c.af)
    (w : World) (hb : w.Bounded) (hfuel : cfg.fuel ≥ c.af.n + 3) :
    wp False (rgMaximalOfComp cfg c) w (fun _ w' => w'.calls ≤ w.calls + c.af.n + 1) := by
  unfold rgMaximalOfComp
  simp only [Prog.bind_eq]
  rw [wp_bind, wp_mkSolver, wp_bind]
  have hlen : w.solvers.length < w.onNew.solvers.length := by simp [World.onNew]
  refine wp_mono _ _ _ _ ?_ (wp_andT _ _ _ _
    (wp_encodeInto (C := False) cfg.enc c.af w.solvers.length true w.onNew (Bounded_onNew hb) hlen (db_onNew_self w)
      (fun _ w' => Encoded cfg.enc c.af w.solvers.length true w') (fun w' h _ => h))
    (wp_encodeInto_calls cfg.enc c.af w.solvers.length true w.onNew))
  rintro _ w1 ⟨henc, hc1⟩
  rw [wp_bind]
  refine wp_mono _ _ _ _ ?_ (wp_andT _ _ _ _ (wp_MEC_new_rg (C := False) henc hwf hk)
    (wp_MEC_new_calls c.af cfg.enc w.solvers.length .range w1))
  rintro m w2 ⟨⟨hM, haf, henc', hst, hmodel⟩, hc2⟩
  rw [wp_bind]
  have h1 : w1.calls = w.onNew.calls := hc1
  have h2 : w2.calls = w1.calls := hc2
  simp only [World.onNew_calls] at h1
  -- the iteration of the initial state
  cases hfu : cfg.fuel with
  | zero => omega
  | succ fuel =>
    unfold MEC.computeMaximal
    have hne : (m.state == MState.maximal) = false := by rw [hst]; rfl
    simp only [hne, Bool.false_eq_true, if_false, Prog.bind_eq]
    rw [wp_bind]
    unfold MEC.computeNext
    rw [hst]
    show wp False (MEC.computeMaximal fuel { m with cur := groundedV m.af.view, state := .intermediate }) w2 _
    have hS : RSk { m with cur := groundedV m.af.view, state := .intermediate } w2 [] (fun _ => True) :=
      RSk.init hM (by rw [haf]; exact hgr) hmodel
    have hμ : growMeasureR { m with cur := groundedV m.af.view, state := .intermediate } ≤ c.af.n + 1 := by
      unfold growMeasureR
      rw [if_neg (by intro hh; cases hh)]
      have := outside_le m.af.n (MEC.inR { m with cur := groundedV m.af.view, state := .intermediate })
      rw [haf] at this
      show outside m.af.n _ + 1 ≤ _
      rw [haf]
      omega
    refine wp_mono _ _ _ _ ?_ (rcomputeMaximal_calls (P := fun _ => True) fuel _ w2 (Or.inl ⟨rfl, [], hS⟩) (by omega))
    intro e w3 hw3
    have h3 : w3.calls ≤ w2.calls + growMeasureR { m with cur := groundedV m.af.view, state := .intermediate } := hw3
    show w3.calls ≤ w.calls + c.af.n + 1
    omega

/-! ## DC / DS: the acceptance loop -/

/-- ghost bookkeeping: `found` = the ends of the searches so far, pairwise different members of the
family; the range of each is inside a blocked range; in the intermediate state the current range is
not inside any blocked range -/
structure RCInv (af : AF) (Bs : ASet → Prop) (st : MState) (R : Nat → Bool) (blocked : List (Nat → Bool))
    (found : List (List Nat)) : Prop where
  found_base : ∀ F ∈ found, Bs (ofList F)
  found_nd : DistinctS found
  found_blk : ∀ F ∈ found, ∃ B ∈ blocked, ∀ a, a < af.n → InRange af (ofList F) a → B a = true
  fresh : st = .intermediate → ∀ B ∈ blocked, ∃ a, a < af.n ∧ B a = false ∧ R a = true

theorem RCInv.empty (af : AF) (Bs : ASet → Prop) (st : MState) (R : Nat → Bool) : RCInv af Bs st R [] [] :=
  ⟨fun F hF => (by cases hF), List.Pairwise.nil, fun F hF => (by cases hF), fun _ B hB => (by cases hB)⟩

/-- in the intermediate state the current set differs from every end of search -/
theorem RCInv.cur_ne {af : AF} {Bs : ASet → Prop} {R : Nat → Bool} {blocked : List (Nat → Bool)}
    {found : List (List Nat)} (h : RCInv af Bs .intermediate R blocked found) {cur : List Nat}
    (hsound : ∀ a, a < af.n → R a = true → InRange af (ofList cur) a) :
    ∀ F ∈ found, ofList cur ≠ ofList F := by
  intro F hF heq
  obtain ⟨B, hB, hFB⟩ := h.found_blk F hF
  obtain ⟨a, ha, hBa, hRa⟩ := h.fresh rfl B hB
  have := hFB a ha (by rw [← heq]; exact hsound a ha hRa)
  rw [hBa] at this; cases this

/-- a SAT reply under `¬selector` -/
theorem RCInv.sat {af : AF} {Bs : ASet → Prop} {st : MState} {R : Nat → Bool} {blocked : List (Nat → Bool)}
    {found : List (List Nat)} (h : RCInv af Bs st R blocked found) (blocked' : List (Nat → Bool)) (R' : Nat → Bool)
    (hmono : ∀ B ∈ blocked, B ∈ blocked')
    (hfresh : ∀ B ∈ blocked', ∃ a, a < af.n ∧ B a = false ∧ R' a = true) :
    RCInv af Bs .intermediate R' blocked' found :=
  ⟨h.found_base, h.found_nd, fun F hF => by
      obtain ⟨B, hB, hFB⟩ := h.found_blk F hF
      exact ⟨B, hmono B hB, hFB⟩, fun _ => hfresh⟩

/-- the end of a search: the current set joins `found`, its range is blocked -/
theorem RCInv.push_found {af : AF} {Bs : ASet → Prop} {R : Nat → Bool} {blocked : List (Nat → Bool)}
    {found : List (List Nat)} (h : RCInv af Bs .intermediate R blocked found) {cur : List Nat}
    (hbase : Bs (ofList cur)) (hsound : ∀ a, a < af.n → R a = true → InRange af (ofList cur) a)
    (hex : ∀ a, a < af.n → InRange af (ofList cur) a → R a = true) :
    RCInv af Bs .maximal R (R :: blocked) (cur :: found) := by
  refine ⟨?_, ?_, ?_, fun hh => by cases hh⟩
  · intro F hF
    rcases List.mem_cons.1 hF with rfl | hF
    · exact hbase
    · exact h.found_base F hF
  · exact List.pairwise_cons.2 ⟨h.cur_ne hsound, h.found_nd⟩
  · intro F hF
    rcases List.mem_cons.1 hF with rfl | hF
    · exact ⟨R, List.mem_cons_self, hex⟩
    · obtain ⟨B, hB, hFB⟩ := h.found_blk F hF
      exact ⟨B, List.mem_cons_of_mem _ hB, hFB⟩

/-- the states in which the acceptance loop starts an iteration, blocked list explicit -/
def RLB (m : MEC) (w : World) (blocked : List (Nat → Bool)) : Prop :=
  (m.state = .init ∧ RInv m w [] ∧ GrOK m.af ∧ m.model = none ∧ blocked = []) ∨
  (m.state = .intermediate ∧ RSk m w blocked (fun _ => True)) ∨
  (m.state = .maximal ∧ ∃ B blocked', blocked = B :: blocked' ∧ RSk m w blocked (fun _ => True) ∧
    ∀ a, a < m.af.n → InRange m.af (ofList m.cur) a → m.inR a = true)

/-- the call budget: `n + 2` calls per search -/
def RCalls (c0 : Nat) (m : MEC) (w : World) (found : List (List Nat)) : Prop :=
  (m.state = .init → w.calls ≤ c0 ∧ found = []) ∧
  (m.state = .intermediate →
    w.calls + outside m.af.n m.inR + 2 ≤ c0 + (m.af.n + 2) * (found.length + 1)) ∧
  (m.state = .maximal → w.calls ≤ c0 + (m.af.n + 2) * found.length)

/-- what `compute_next` leaves -/
def RAfterB (c0 : Nat) (m m' : MEC) (w' : World) (found : List (List Nat)) : Prop :=
  m'.af = m.af ∧ m'.enc = m.enc ∧
  ((m'.state = .none ∧ w'.calls ≤ c0 + (m.af.n + 2) * found.length + 1) ∨
   (∃ blocked', m'.state = .intermediate ∧ RSk m' w' blocked' (fun _ => True) ∧
      RCInv m.af (m.enc.Base m.af) .intermediate m'.inR blocked' found ∧
      w'.calls + outside m.af.n m'.inR + 2 ≤ c0 + (m.af.n + 2) * (found.length + 1)) ∨
   (∃ B blocked', m'.state = .maximal ∧ RSk m' w' (B :: blocked') (fun _ => True) ∧
      (∀ a, a < m.af.n → InRange m.af (ofList m'.cur) a → m'.inR a = true) ∧
      RCInv m.af (m.enc.Base m.af) .maximal m'.inR (B :: blocked') (m'.cur :: found) ∧
      w'.calls + 1 ≤ c0 + (m.af.n + 2) * (found.length + 1)))

theorem covered_true {af : AF} {Bs : ASet → Prop} {B : Nat → Bool} {D : ASet} (hD : Bs D)
    (h : ∀ a, a < af.n → B a = true → InRange af D a) : Covered af Bs (fun _ => True) B :=
  ⟨D, hD, h, fun _ _ _ _ => trivial⟩

theorem wp_rnext_cnt {c0 : Nat} {m : MEC} {w : World} {blocked : List (Nat → Bool)} {found : List (List Nat)}
    (h : RLB m w blocked) (hc : RCInv m.af (m.enc.Base m.af) m.state m.inR blocked found)
    (hb : RCalls c0 m w found) :
    wp False m.computeNext w (fun m' w' => RAfterB c0 m m' w' found ∧
      (m.state = .init → w'.calls = w.calls) ∧ (m.state ≠ .init → w'.calls = w.calls + 1)) := by
  refine wp_mono _ _ _ _ ?_ (wp_andT _ _ (fun m' w' => RAfterB c0 m m' w' found) _ ?_ (wp_computeNext_calls m w))
  · rintro m' w' ⟨h1, _, h2, h3⟩; exact ⟨h1, h2, h3⟩
  rcases h with ⟨hst, hM, hgr, hmodel, hbl⟩ | ⟨hst, hS⟩ | ⟨hst, B0, blocked0, hbl, hS, hex⟩
  · -- init
    unfold MEC.computeNext
    rw [hst]
    obtain ⟨hcal, hfd⟩ := hb.1 hst
    subst hfd; subst hbl
    have hS : RSk { m with cur := groundedV m.af.view, state := .intermediate } w [] (fun _ => True) :=
      RSk.init hM hgr hmodel
    refine ⟨rfl, rfl, Or.inr (Or.inl ⟨[], rfl, hS, RCInv.empty _ _ _ _, ?_⟩)⟩
    have := outside_le m.af.n (MEC.inR { m with cur := groundedV m.af.view, state := .intermediate })
    show w.calls + outside m.af.n _ + 2 ≤ c0 + (m.af.n + 2) * ([].length + 1)
    simp only [List.length_nil, Nat.zero_add, Nat.mul_one]
    omega
  · -- intermediate: increase
    rw [hst] at hc
    have hbud := hb.2.1 hst
    refine wp_mono _ _ _ _ ?_ (wp_rincrease_cnt hS hst)
    rintro m' w' ⟨haf, henc, hcal, hcase⟩
    refine ⟨haf, henc, ?_⟩
    rcases hcase with ⟨hst', hS', hout, hblk⟩ | ⟨hst', hcur, hinR, hS', hex⟩
    · refine Or.inr (Or.inl ⟨m.inR :: blocked, hst', hS', ?_, by omega⟩)
      exact hc.sat (m.inR :: blocked) m'.inR (fun B hB => List.mem_cons_of_mem _ hB) hblk
    · refine Or.inr (Or.inr ⟨m.inR, blocked, hst', hS', ?_, ?_, by omega⟩)
      · rw [hcur, hinR]; exact hex
      · rw [hcur, hinR]
        exact hc.push_found hS.cur_base hS.r_sound hex
  · -- maximal: block, then a new search
    subst hbl
    have hbud := hb.2.2 hst
    unfold MEC.computeNext
    rw [hst]
    simp only [Prog.bind_eq, blockAndAssume_rg hS.rinv.kind]
    rw [wp_bind, wp_addClause1]
    have htop : ∀ B ∈ m.inR :: B0 :: blocked0, Covered m.af (m.enc.Base m.af) (fun _ => True) B := by
      intro B hB
      rcases List.mem_cons.1 hB with rfl | hB
      · exact covered_true hS.cur_base hS.r_sound
      · rcases hS.top B hB with hcov | hsub
        · exact hcov
        · exact covered_true hS.cur_base (fun a ha hBa => hS.r_sound a ha (hsub a ha hBa))
    refine wp_mono _ _ _ _ ?_ (wp_andT _ _ _ _ (wp_andT _ _ _ _
      (wp_rnewSearch (C := False) (hS.rinv.block m.inR) htop)
      (wp_rnewSearch_fresh (C := True) (hS.rinv.block m.inR))) (wp_newSearch_calls m _))
    rintro m' w' ⟨⟨⟨haf, henc, hcase⟩, hfresh⟩, hcal⟩
    have hcal' : w'.calls = w.calls + 1 := hcal
    refine ⟨haf, henc, ?_⟩
    rcases hcase with ⟨hst', hS'⟩ | ⟨hst', _⟩
    · have hfr := hfresh hst'
      obtain ⟨a, ha, _, hRa⟩ := hfr m.inR List.mem_cons_self
      have hout := outside_lt_of_mem m.af.n m'.inR ha hRa
      refine Or.inr (Or.inl ⟨m.inR :: B0 :: blocked0, hst', hS', ?_, ?_⟩)
      · exact hc.sat _ m'.inR (fun B hB => List.mem_cons_of_mem _ hB) hfr
      · have e : (m.af.n + 2) * (found.length + 1) = (m.af.n + 2) * found.length + (m.af.n + 2) :=
          Nat.mul_succ _ _
        omega
    · exact Or.inl ⟨hst', by omega⟩

theorem wp_doSolve_any {C : Prop} (s : Nat) (as : List Lit) (w : World) (Q : Option Model → World → Prop)
    (hsat : ∀ mdl, Q (some mdl) ((w.onSolve s as).onReply s (.sat mdl)))
    (hunsat : Q none ((w.onSolve s as).onReply s .unsat)) : wp C (doSolve s as) w Q :=
  ⟨fun mdl _ => hsat mdl, fun _ => hunsat⟩

/-- **the acceptance loop terminates** within `(n + 2)·|base| + 1` calls; `fam` is any exact
enumeration of the family of the encoder on the component -/
theorem rgAccLoop_calls (cred : Bool) (pos : List Nat) (c0 : Nat) : ∀ (fuel : Nat) (m : MEC) (w : World)
    (blocked : List (Nat → Bool)) (found fam : List (List Nat)),
    (∀ l, l ∈ fam ↔ l ∈ subsets m.af.n ∧ m.enc.Base m.af (ofList l)) →
    RLB m w blocked → RCInv m.af (m.enc.Base m.af) m.state m.inR blocked found → RCalls c0 m w found →
    fuel + w.calls ≥ c0 + (m.af.n + 2) * fam.length + 1 + (if m.state = .init then 1 else 0) →
    wp False (rgAccLoop cred pos fuel m) w (fun _ w' => w'.calls ≤ c0 + (m.af.n + 2) * fam.length + 1)
  | fuel, m, w, blocked, found, fam, hfam, h, hc, hb, hf => by
    -- what the bookkeeping says about the number of ends of search
    have hfl : found.length ≤ fam.length :=
      length_le_fam m.af (m.enc.Base m.af) fam hfam (fun _ hT => m.enc.Base_sub hT) found hc.found_nd hc.found_base
    have hmul : (m.af.n + 2) * found.length ≤ (m.af.n + 2) * fam.length := Nat.mul_le_mul_left _ hfl
    have hfl1 : m.state = .intermediate → (m.af.n + 2) * (found.length + 1) ≤ (m.af.n + 2) * fam.length := by
      intro hst
      rcases h with ⟨hst', _⟩ | ⟨_, hS⟩ | ⟨hst', _⟩
      · rw [hst] at hst'; cases hst'
      · rw [hst] at hc
        have hne := hc.cur_ne hS.r_sound
        have : (m.cur :: found).length ≤ fam.length :=
          length_le_fam m.af (m.enc.Base m.af) fam hfam (fun _ hT => m.enc.Base_sub hT) (m.cur :: found)
            (List.pairwise_cons.2 ⟨hne, hc.found_nd⟩) (by
              intro F hF
              rcases List.mem_cons.1 hF with rfl | hF
              · exact hS.cur_base
              · exact hc.found_base F hF)
        exact Nat.mul_le_mul_left _ this
      · rw [hst] at hst'; cases hst'
    cases fuel with
    | zero =>
      exfalso
      rcases h with ⟨hst, _⟩ | ⟨hst, _⟩ | ⟨hst, _⟩
      · have := (hb.1 hst).1; rw [if_pos hst] at hf; omega
      · have := hb.2.1 hst; have := hfl1 hst; rw [if_neg (by rw [hst]; intro hh; cases hh)] at hf; omega
      · have := hb.2.2 hst; rw [if_neg (by rw [hst]; intro hh; cases hh)] at hf; omega
    | succ fuel =>
      unfold rgAccLoop
      simp only [Prog.bind_eq]
      rw [wp_bind]
      refine wp_mono _ _ _ _ ?_ (wp_rnext_cnt h hc hb)
      rintro m' w' ⟨⟨haf, henc, hcase⟩, hc0, hc1⟩
      have hfam' : ∀ l, l ∈ fam ↔ l ∈ subsets m'.af.n ∧ m'.enc.Base m'.af (ofList l) := by
        rw [haf, henc]; exact hfam
      -- fuel: every iteration but the first makes a call
      have hfuel' : fuel + w'.calls ≥ c0 + (m.af.n + 2) * fam.length + 1 := by
        by_cases hi : m.state = .init
        · rw [if_pos hi] at hf; have := hc0 hi; omega
        · rw [if_neg hi] at hf; have := hc1 hi; omega
      rcases hcase with ⟨hst, hcal⟩ | ⟨blocked', hst, hS, hc', hbud⟩ | ⟨B, blocked', hst, hS, hex, hc', hbud⟩
      · -- none
        rw [hst]
        simp only
        rw [wp_bind, wp_drop]
        show (w'.onClause m'.sid [pl m'.sel]).calls ≤ _
        simp only [World.onClause_calls]
        omega
      · -- intermediate
        rw [hst]
        simp only
        have hL : RLB m' w' blocked' := Or.inr (Or.inl ⟨hst, hS⟩)
        have hcc : RCInv m'.af (m'.enc.Base m'.af) m'.state m'.inR blocked' found := by
          rw [haf, henc, hst]; exact hc'
        have hbb : RCalls c0 m' w' found :=
          ⟨fun hh => (by rw [hst] at hh; cases hh), fun _ => (by rw [haf]; exact hbud),
           fun hh => (by rw [hst] at hh; cases hh)⟩
        have := rgAccLoop_calls cred pos c0 fuel m' w' blocked' found fam hfam' hL hcc hbb
          (by rw [if_neg (by rw [hst]; intro hh; cases hh), haf]; omega)
        rw [haf] at this
        exact this
      · -- maximal: the end of a search
        rw [hst]
        simp only
        have hfl' : (m'.cur :: found).length ≤ fam.length :=
          length_le_fam m.af (m.enc.Base m.af) fam hfam (fun _ hT => m.enc.Base_sub hT) _ hc'.found_nd
            hc'.found_base
        have hmul' : (m.af.n + 2) * (found.length + 1) ≤ (m.af.n + 2) * fam.length :=
          Nat.mul_le_mul_left _ hfl'
        -- the recursive call after an UNSAT acceptance check in world `w2`
        have hrec : ∀ w2 : World, RInv m' w2 (B :: blocked') → w2.calls = w'.calls + 1 →
            wp False (rgAccLoop cred pos fuel m') w2
              (fun _ w'' => w''.calls ≤ c0 + (m.af.n + 2) * fam.length + 1) := by
          intro w2 hM2 hcal2
          have hL : RLB m' w2 (B :: blocked') :=
            Or.inr (Or.inr ⟨hst, B, blocked', rfl, hS.congr_rinv hM2, by rw [haf]; exact hex⟩)
          have hcc : RCInv m'.af (m'.enc.Base m'.af) m'.state m'.inR (B :: blocked') (m'.cur :: found) := by
            rw [haf, henc, hst]; exact hc'
          have hbb : RCalls c0 m' w2 (m'.cur :: found) :=
            ⟨fun hh => (by rw [hst] at hh; cases hh), fun hh => (by rw [hst] at hh; cases hh),
             fun _ => (by rw [haf]; simp only [List.length_cons]; omega)⟩
          have := rgAccLoop_calls cred pos c0 fuel m' w2 (B :: blocked') (m'.cur :: found) fam hfam' hL hcc hbb
            (by rw [if_neg (by rw [hst]; intro hh; cases hh), haf]; omega)
          rw [haf] at this
          exact this
        by_cases hw : ((cred && pos.any m'.cur.contains) || (!cred && pos.all (fun a => !m'.cur.contains a))) = true
        · rw [if_pos hw]
          rw [wp_bind, wp_drop]
          show (w'.onClause m'.sid [pl m'.sel]).calls ≤ _
          simp only [World.onClause_calls]
          omega
        · rw [if_neg hw]
          cases cred with
          | true =>
            simp only [splitInRange_eq, ↓reduceIte]
            rw [wp_bind, wp_getNVars, wp_bind, wp_addClause1, wp_bind]
            have hsel_le : m'.sel ≤ w'.nVarsOf m'.sid := hS.rinv.sel_le
            generalize hsel' : w'.nVarsOf m'.sid + 1 = sel'
            have hlt' : m'.sel < sel' := by omega
            have hM0 : RInv m' (w'.onNVars m'.sid) (B :: blocked') := hS.rinv.onNVars
            have hM1 := hM0.junk (pos.map (argLit m'.enc) ++ [nl sel']) ⟨sel', hlt', by simp⟩
            apply wp_doSolve_any
            · intro mdl
              rw [wp_bind, wp_addClause1]
              show wp False ((m'.drop).bind _) _ _
              rw [wp_bind, wp_drop]
              show (World.onClause _ m'.sid [pl m'.sel]).calls ≤ _
              simp only [World.onClause_calls, World.onReply_calls, World.onSolve_calls, World.onNVars_calls]
              omega
            · rw [wp_bind, wp_addClause1]
              have hM2 := hM1.onSolve (rinL m'.enc m'.af.n m'.inR ++ (routL m'.enc m'.af.n m'.inR).map Lit.neg ++
                [pl m'.sel] ++ [pl sel']) .unsat
              have hM3 := hM2.junk [nl sel'] ⟨sel', hlt', by simp⟩
              exact hrec _ hM3 (by
                simp only [World.onClause_calls, World.onReply_calls, World.onSolve_calls, World.onNVars_calls])
          | false =>
            simp only [splitInRange_eq, Bool.false_eq_true, ↓reduceIte]
            rw [wp_bind]
            apply wp_doSolve_any
            · intro mdl
              show wp False ((m'.drop).bind _) _ _
              rw [wp_bind, wp_drop]
              show (World.onClause _ m'.sid [pl m'.sel]).calls ≤ _
              simp only [World.onClause_calls, World.onReply_calls, World.onSolve_calls]
              omega
            · have hM2 := hS.rinv.onSolve (rinL m'.enc m'.af.n m'.inR ++ (routL m'.enc m'.af.n m'.inR).map Lit.neg ++
                [pl m'.sel] ++ pos.map (fun a => (argLit m'.enc a).neg)) .unsat
              exact hrec _ hM2 (by simp only [World.onReply_calls, World.onSolve_calls])

/-- **DC / DS for the semi-stable and stage semantics inside the merged component terminate** with fuel
`(n + 2)·|base| + 2` **within `(n + 2)·|base| + 1` SAT calls**, where `fam` is any exact enumeration
of the family `cfg.enc.Base` of the component -/
theorem rgAccInCc_calls (cfg : Cfg) (hk : RangeEnc cfg.enc) (c : Comp) (args : List Nat) (cred : Bool)
    (hwf : c.af.WF) (hgr : GrOK c.af) (w : World) (hb : w.Bounded)
    (hpos : ∃ pos, posAll c args = some pos) (fam : List (List Nat))
    (hfam : ∀ l, l ∈ fam ↔ l ∈ subsets c.af.n ∧ cfg.enc.Base c.af (ofList l))
    (hfuel : cfg.fuel ≥ (c.af.n + 2) * fam.length + 2) :
    wp False (rgAccInCc cfg c args cred) w
      (fun _ w' => w'.calls ≤ w.calls + (c.af.n + 2) * fam.length + 1) := by
  obtain ⟨pos, hpos⟩ := hpos
  unfold rgAccInCc
  simp only [Prog.bind_eq]
  rw [wp_bind]
  apply wp_ccArgs_some c args pos w _ hpos
  rw [wp_bind, wp_mkSolver, wp_bind]
  have hlen : w.solvers.length < w.onNew.solvers.length := by simp [World.onNew]
  refine wp_mono _ _ _ _ ?_ (wp_andT _ _ _ _
    (wp_encodeInto (C := False) cfg.enc c.af w.solvers.length true w.onNew (Bounded_onNew hb) hlen (db_onNew_self w)
      (fun _ w' => Encoded cfg.enc c.af w.solvers.length true w') (fun w' h _ => h))
    (wp_encodeInto_calls cfg.enc c.af w.solvers.length true w.onNew))
  rintro _ w1 ⟨henc, hc1⟩
  rw [wp_bind]
  refine wp_mono _ _ _ _ ?_ (wp_andT _ _ _ _ (wp_MEC_new_rg (C := False) henc hwf hk)
    (wp_MEC_new_calls c.af cfg.enc w.solvers.length .range w1))
  rintro m w2 ⟨⟨hM, haf, henc', hst, hmodel⟩, hc2⟩
  have h1 : w1.calls = w.onNew.calls := hc1
  have h2 : w2.calls = w1.calls := hc2
  simp only [World.onNew_calls] at h1
  have hL : RLB m w2 [] := Or.inl ⟨hst, hM, by rw [haf]; exact hgr, hmodel, rfl⟩
  have hbb : RCalls w.calls m w2 [] :=
    ⟨fun _ => ⟨(by omega), rfl⟩, fun hh => (by rw [hst] at hh; cases hh), fun hh => (by rw [hst] at hh; cases hh)⟩
  have := rgAccLoop_calls cred pos w.calls cfg.fuel m w2 [] [] fam (by rw [haf, henc']; exact hfam) hL
    (RCInv.empty _ _ _ _) hbb (by rw [if_pos hst, haf]; omega)
  rw [haf] at this
  exact this

/-- semi-stable: the family is the complete sets, counted by `extsCO` -/
theorem rgAccInCc_calls_sst (cfg : Cfg) (hk : RangeEnc cfg.enc)
    (hco : ∀ af T, cfg.enc.Base af T ↔ Complete af T) (c : Comp) (args : List Nat) (cred : Bool)
    (hwf : c.af.WF) (hgr : GrOK c.af) (w : World) (hb : w.Bounded)
    (hpos : ∃ pos, posAll c args = some pos)
    (hfuel : cfg.fuel ≥ (c.af.n + 2) * (extsCO c.af).length + 2) :
    wp False (rgAccInCc cfg c args cred) w
      (fun _ w' => w'.calls ≤ w.calls + (c.af.n + 2) * (extsCO c.af).length + 1) :=
  rgAccInCc_calls cfg hk c args cred hwf hgr w hb hpos (extsCO c.af)
    (fun l => by rw [mem_extsCO, hco]) hfuel

/-- stage: the family is the conflict-free sets, counted by `extsCF` -/
theorem rgAccInCc_calls_stg (cfg : Cfg) (hk : RangeEnc cfg.enc)
    (hcf : ∀ af T, cfg.enc.Base af T ↔ ConflictFree af T) (c : Comp) (args : List Nat) (cred : Bool)
    (hwf : c.af.WF) (hgr : GrOK c.af) (w : World) (hb : w.Bounded)
    (hpos : ∃ pos, posAll c args = some pos)
    (hfuel : cfg.fuel ≥ (c.af.n + 2) * (extsCF c.af).length + 2) :
    wp False (rgAccInCc cfg c args cred) w
      (fun _ w' => w'.calls ≤ w.calls + (c.af.n + 2) * (extsCF c.af).length + 1) :=
  rgAccInCc_calls cfg hk c args cred hwf hgr w hb hpos (extsCF c.af)
    (fun l => by rw [mem_extsCF, hcf]) hfuel

/-- the bounds in the form of property C18, `(n + 2)·|base| + 3` -/
theorem rgAccInCc_calls_c18 (cfg : Cfg) (hk : RangeEnc cfg.enc) (c : Comp) (args : List Nat) (cred : Bool)
    (hwf : c.af.WF) (hgr : GrOK c.af) (w : World) (hb : w.Bounded)
    (hpos : ∃ pos, posAll c args = some pos) (fam : List (List Nat))
    (hfam : ∀ l, l ∈ fam ↔ l ∈ subsets c.af.n ∧ cfg.enc.Base c.af (ofList l))
    (hfuel : cfg.fuel ≥ (c.af.n + 2) * fam.length + 2) :
    wp False (rgAccInCc cfg c args cred) w
      (fun _ w' => w'.calls ≤ w.calls + (c.af.n + 2) * fam.length + 3) := by
  refine wp_mono _ _ _ _ ?_ (rgAccInCc_calls cfg hk c args cred hwf hgr w hb hpos fam hfam hfuel)
  intro _ w' h
  have : w'.calls ≤ w.calls + (c.af.n + 2) * fam.length + 1 := h
  omega

theorem rgMaximalOfComp_calls_c18 (cfg : Cfg) (hk : RangeEnc cfg.enc) (c : Comp) (hwf : c.af.WF) (hgr : GrOK c.af)
    (w : World) (hb : w.Bounded) (fam : List (List Nat))
    (hfam : ∀ l, l ∈ fam ↔ l ∈ subsets c.af.n ∧ cfg.enc.Base c.af (ofList l))
    (hfuel : cfg.fuel ≥ c.af.n + 3) :
    wp False (rgMaximalOfComp cfg c) w (fun _ w' => w'.calls ≤ w.calls + (c.af.n + 2) * fam.length + 3) := by
  refine wp_mono _ _ _ _ ?_ (rgMaximalOfComp_calls cfg hk c hwf hgr w hb hfuel)
  intro _ w' h
  have h' : w'.calls ≤ w.calls + c.af.n + 1 := h
  -- the family is not empty: it contains the grounded extension
  have hbase : cfg.enc.Base c.af (ofList (groundedV c.af.view)) := cfg.enc.Base_of_complete hk hgr.1
  obtain ⟨l, hl, hle⟩ := exists_list_of_sub c.af _ (cfg.enc.Base_sub hbase)
  have hmem : l ∈ fam := (hfam l).2 ⟨hl, by rw [hle]; exact hbase⟩
  have hpos : 1 ≤ fam.length := List.length_pos_of_mem hmem
  have : (c.af.n + 2) * 1 ≤ (c.af.n + 2) * fam.length := Nat.mul_le_mul_left _ hpos
  show w'.calls ≤ w.calls + (c.af.n + 2) * fam.length + 3
  omega

end Crusta
