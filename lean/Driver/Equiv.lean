import Driver.Enc
import Crusta.Model.Equiv

namespace Driver
open Crusta Crusta.Eq

def runEquiv (lines : List String) : List String := Id.run do
  let inl := (lines.find? (fun l => l.startsWith "in ")).getD ""
  let ts := toks inl
  let some af := afOfSpec (kvGetD ts "fw" "") | return ["verdict BAD unparsable framework spec"]
  let spec := kvGetD ts "fw" ""
  -- labels of a compact framework: ICCMA 1..n ; history: creation labels
  let labels : List Nat :=
    if spec.startsWith "i:" then (List.range af.n).map (· + 1)
    else
      let ops := opsOf (spec.drop 2).toString
      let s := ops.foldl (fun s o => match s.step o with | .ok s' => s' | .err s' => s' | .panic => s) Store.empty
      s.liveArgs.map (·.2)
  let classes := computeClasses af
  let i2r := initToReduced af.n classes
  let mut out : List String := []
  out := ("Q classes=" ++ ",".intercalate ((classes.zipIdx).map (fun (c, i) => s!"{i}:{".".intercalate (c.members.map toString)}"))) :: out
  out := ("Q i2r=" ++ ",".intercalate ((List.range af.n).map (fun a => s!"{a}:{i2r.getD a 0}"))) :: out
  let rl := classes.map (fun c => toString (labels.getD (c.members.headD 0) 0))
  let ra := reducedAtts af classes
  out := s!"Q reduced n={classes.length} labels={",".intercalate rl} atts={",".intercalate (ra.map (fun p => s!"{p.1}>{p.2}"))}" :: out
  -- conformance oracle on the implementation's classes (bounded by the reference enumeration)
  let implClasses : List (List Nat) := match lines.find? (fun l => l.startsWith "Q classes=") with
    | some l => ((l.drop 10).toString.splitOn ",").filterMap (fun t =>
        match t.splitOn ":" with
        | [_, ms] => some (natList ms ".")
        | _ => none)
    | none => []
  let implI2r : List (Nat × Nat) := match lines.find? (fun l => l.startsWith "Q i2r=") with
    | some l => ((l.drop 6).toString.splitOn ",").filterMap (fun t =>
        match t.splitOn ":" with
        | [a, r] => some (natOf a, natOf r)
        | _ => none)
    | none => []
  let mut verdict := "ok"
  -- partition
  let allm := implClasses.flatMap id
  if !((List.range af.n).all (fun a => (allm.filter (· == a)).length == 1)) || allm.length != af.n then
    verdict := "BAD classes do not partition the arguments"
  -- maps inverse at class level
  else if !(implI2r.all (fun (a, r) => (implClasses.getD r []).contains a)) || implI2r.length != af.n then
    verdict := "BAD init_to_reduced_arg and reduced_arg_to_init_args are not inverse"
  else if af.n ≤ 9 then
    if !(implClasses.all (fun c => c.all (fun a => c.all (fun b => sameCompleteB af a b)))) then
      verdict := "BAD merged arguments are distinguishable by a complete extension"
    else
      -- "in particular all arguments of the grounded extension together, and all arguments it defeats together":
      -- the grounded extension is the set of arguments that are in every complete extension
      let cos := extsCO af
      let gr := (List.range af.n).filter (fun a => cos.all (fun e => e.contains a))
      let de := (List.range af.n).filter (fun b => gr.any (fun a => af.atts.contains (a, b)))
      let clsOf := fun (a : Nat) => (implI2r.find? (fun p => p.1 == a)).map (·.2)
      if !(gr.all (fun a => clsOf a == clsOf (gr.headD 0))) then
        verdict := "BAD the arguments of the grounded extension are not merged into one class"
      else if !(de.all (fun a => clsOf a == clsOf (de.headD 0))) then
        verdict := "BAD the arguments defeated by the grounded extension are not merged into one class"
  return (s!"verdict {verdict}" :: out).reverse

end Driver
