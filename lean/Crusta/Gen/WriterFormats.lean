/-! Regenerated from /repo/src/io/{iccma23_writer,aspartix_writer,specs}.rs by tools/gen_from_source.py on every run.
Format strings of the `write!` / `writeln!` calls in source order (`{}` = 123, 125 is a placeholder; `writeln!` adds 10). Do not edit. -/

namespace Crusta.Gen

def iccmaExtFormats : List (List Nat) := [[119], [32, 123, 125], [10]]
def apxExtFormats : List (List Nat) := [[91], [123, 125], [44, 123, 125], [93, 10]]
def apxFrameworkFormats : List (List Nat) := [[97, 114, 103, 40, 123, 125, 41, 46, 10], [97, 116, 116, 40, 123, 125, 44, 123, 125, 41, 46, 10]]
def noExtensionFormats : List (List Nat) := [[78, 79, 10]]
def statusFormats : List (List Nat) := [[123, 125, 10]]
def statusYes : List Nat := [89, 69, 83]
def statusNo : List Nat := [78, 79]

end Crusta.Gen
