import Crusta.Proofs.StaticPR
import Crusta.Proofs.StaticGR

/-!
# Preferred and complete solvers: certificate variants and all entry points

* `wp_otherCompsWith`: the loop over the components that remain after the merged component;
* `co_dc_cert_ok`, `pr_ds_cert_ok`: the `_with_certificate` variants on the whole framework;
* `pr_entry_ok`, `co_entry_ok`: every entry point offered by the two solver types.
-/

namespace Crusta
open Prog (mkSolver doReserve addClause addClauses getNVars doSolve)

/-! ## the loop over the remaining components -/

theorem wp_otherCompsWith (v : FwView) (g : G) (hv : v.Ok g) (f : Comp → Prog (List Nat)) (P : Comp → List Nat → Prop)
    (hf : ∀ c w, w.Bounded → GoodComp g c → wp True (f c) w (fun r w' => w'.Bounded ∧ P c r)) :
    ∀ (fuel : Nat) (cc : CC) (marked : Nat → Prop) (acc : List Nat) (w : World), CCInv v g cc marked → w.Bounded →
      wp True (otherCompsWith v f fuel cc acc) w (fun res w' => w'.Bounded ∧ ∃ (cs : List Comp) (rs : List (List Nat)),
        rs.length = cs.length ∧ res = acc ++ rs.flatten ∧ (∀ c ∈ cs, GoodComp g c) ∧
        cs.Pairwise (fun c c' => ∀ a, a ∈ c.ids → a ∉ c'.ids) ∧ (∀ c ∈ cs, ∀ a ∈ c.ids, ¬ marked a) ∧
        (∀ a, g.live a = true → marked a ∨ ∃ c ∈ cs, a ∈ c.ids) ∧
        ∀ (i : Nat) (c : Comp) (r : List Nat), cs[i]? = some c → rs[i]? = some r → P c r)
  | 0, _, _, _, _, _, _ => trivial
  | fuel + 1, cc, marked, acc, w, hI, hb => by
    obtain ⟨hnone, hsome⟩ := CC.nextComp_spec v g hv cc marked hI
    unfold otherCompsWith
    cases hnc : CC.nextComp v cc with
    | none =>
      refine ⟨hb, [], [], rfl, by simp, fun c hc => (by cases hc), List.Pairwise.nil, fun c hc => (by cases hc),
        fun a ha => Or.inl (hnone hnc a ha), fun i c r h => (by simp at h)⟩
    | some p =>
      obtain ⟨oc, cc'⟩ := p
      obtain ⟨c, rfl, hgood, _, hnm, hI'⟩ := hsome oc cc' hnc
      simp only [Prog.bind_eq]
      rw [wp_bind]
      apply wp_needComp' trivial
      intro c' hc'
      injection hc' with hc'; subst hc'
      rw [wp_bind]
      refine wp_mono _ _ _ _ ?_ (hf c w hb hgood)
      rintro r w1 ⟨hb1, hP⟩
      refine wp_mono _ _ _ _ ?_ (wp_otherCompsWith v g hv f P hf fuel cc' _ (acc ++ r) w1 hI' hb1)
      rintro res w2 ⟨hb2, cs, rs, hlen, hres, hgs, hdisj, hun, hcov, hall⟩
      refine ⟨hb2, c :: cs, r :: rs, by simp [hlen], by simp [hres], ?_, ?_, ?_, ?_, ?_⟩
      · intro c' hc'
        rcases List.mem_cons.1 hc' with rfl | hc'
        · exact hgood
        · exact hgs c' hc'
      · rw [List.pairwise_cons]
        refine ⟨fun c' hc' a ha ha' => hun c' hc' a ha' (Or.inr ha), hdisj⟩
      · intro c' hc' a ha hm
        rcases List.mem_cons.1 hc' with rfl | hc'
        · exact hnm a ha hm
        · exact hun c' hc' a ha (Or.inl hm)
      · intro a ha
        rcases hcov a ha with (hm | hm) | ⟨c', hc', hac⟩
        · exact Or.inl hm
        · exact Or.inr ⟨c, by simp, hm⟩
        · exact Or.inr ⟨c', by simp [hc'], hac⟩
      · intro i c' r' hci hri
        cases i with
        | zero =>
          simp only [List.getElem?_cons_zero, Option.some.injEq] at hci hri
          subst hci; subst hri; exact hP
        | succ j =>
          simp only [List.getElem?_cons_succ] at hci hri
          exact hall j c' r' hci hri

/-! ## the credulous complete query on the merged component: the two semantic facts -/

/-- a sound SAT reply to the query "some argument of `pos` is in" decodes to a complete extension of
the component that contains one of them -/
theorem co_query_sat (cfg : Cfg) (hk : ∀ af T, cfg.enc.Base af T ↔ Complete af T) (c : Comp) (hwf : c.af.WF)
    (hn : c.af.n = c.ids.length) {args pos : List Nat} (hpos : posAll c args = some pos) (db : Cnf)
    (hdb : ∀ ν, cnfTrue ν db = cnfTrue ν (cfg.enc.clauses c.af)) (sel : Nat) (m : Model)
    (hΓ : cnfTrue (asgOfModel m) ((pos.map (argLit cfg.enc) ++ [nl sel]) :: db) = true)
    (hA : assumpsTrue (asgOfModel m) [pl sel] = true) :
    Complete c.af (ofList (cfg.enc.decode c.af.n m)) ∧ Hits pos (ofList (cfg.enc.decode c.af.n m)) := by
  rw [cfg.enc.ofList_decode c.af m]
  rw [cnfTrue_iff] at hΓ
  have hsel_true : asgOfModel m sel = true := by simpa [assumpsTrue] using hA
  have hcl := hΓ _ (List.mem_cons_self)
  have hbase : cnfTrue (asgOfModel m) db = true := by
    rw [cnfTrue_iff]; intro c'' hc''; exact hΓ _ (List.mem_cons_of_mem _ hc'')
  rw [hdb] at hbase
  refine ⟨(hk _ _).1 (cfg.enc.sound c.af hwf _ hbase), ?_⟩
  rw [clauseTrue_iff] at hcl
  obtain ⟨l, hl, hlt⟩ := hcl
  rcases List.mem_append.1 hl with hl | hl
  · obtain ⟨i, hi, rfl⟩ := List.mem_map.1 hl
    refine ⟨i, hi, ?_⟩
    simp only [argLit, litTrue_pl'] at hlt
    have hin : i < c.af.n := by
      obtain ⟨a, _, hpa⟩ := (mem_posAll hpos i).1 hi
      exact Comp.pos_lt hn hpa
    rw [cfg.enc.S_lt hin]; exact hlt
  · simp only [List.mem_singleton] at hl; subst hl
    simp [litTrue, nl, hsel_true] at hlt

/-- an UNSAT reply: no complete extension of the component contains an argument of `pos` -/
theorem co_query_unsat (cfg : Cfg) (hk : ∀ af T, cfg.enc.Base af T ↔ Complete af T) (c : Comp) (hwf : c.af.WF)
    (pos : List Nat) (db : Cnf) (hdb : ∀ ν, cnfTrue ν db = cnfTrue ν (cfg.enc.clauses c.af)) (sel : Nat)
    (hfresh_db : ∀ c' ∈ db, ∀ l ∈ c', l.var ≠ sel) (hfresh_arg : ∀ a, a < c.af.n → cfg.enc.argVar a ≠ sel)
    (hun : ∀ ν : Asg, ¬ (cnfTrue ν ((pos.map (argLit cfg.enc) ++ [nl sel]) :: db) = true ∧ assumpsTrue ν [pl sel] = true)) :
    ¬ ∃ T, Complete c.af T ∧ Hits pos T := by
  rintro ⟨T, hT, i, hi, hTi⟩
  obtain ⟨ν, hν, hS⟩ := cfg.enc.complete c.af hwf T ((hk _ _).2 hT)
  apply hun (ν.set sel true)
  refine ⟨?_, by simp [assumpsTrue, litTrue, pl]⟩
  rw [cnfTrue_iff]
  intro c'' hc''
  rcases List.mem_cons.1 hc'' with rfl | hc''
  · rw [clauseTrue_iff]
    refine ⟨argLit cfg.enc i, List.mem_append_left _ (List.mem_map_of_mem hi), ?_⟩
    have hin : i < c.af.n := hT.1.1.1 i hTi
    simp only [argLit, litTrue_pl']
    rw [Asg.set_ne _ _ (hfresh_arg i hin), ← cfg.enc.S_lt (ν := ν) hin, hS]; exact hTi
  · rw [clauseTrue_set_fresh _ _ _ (hfresh_db c'' hc'')]
    have : cnfTrue ν db = true := by rw [hdb]; exact hν
    exact (cnfTrue_iff _ _).1 this c'' hc''

/-- credulous acceptance of a disjunction for the complete semantics: the merged component decides -/
theorem co_cred_lift {g : G} {v : FwView} (hv : v.Ok g) {c : Comp} (hgood : GoodComp g c) {args pos : List Nat}
    (hin : ∀ a ∈ args, a ∈ c.ids) (hpos : posAll c args = some pos) :
    (∃ T, Complete c.af T ∧ Hits pos T) ↔ (∃ S, g.Complete S ∧ HitsL args S) := by
  have hex : ∃ S0, g.Ext .CO S0 := ⟨_, (groundedV_spec v g hv).1.1⟩
  have := comp_ext_exists hgood hv.fin .CO hex (HitsL args)
  constructor
  · rintro ⟨T, hT, hh⟩
    obtain ⟨S, hS, hh'⟩ := this.1 ⟨T, hT, (hits_up hgood hpos T).1 hh⟩
    exact ⟨S, hS, (hitsL_inter hin S).1 hh'⟩
  · rintro ⟨S, hS, hh⟩
    obtain ⟨T, hT, hh'⟩ := this.2 ⟨S, hS, (hitsL_inter hin S).2 hh⟩
    exact ⟨T, hT, (hits_up hgood hpos T).2 hh'⟩

/-! ## assembling a certificate: the merged component's part followed by the others' -/

theorem hitsL_mono {args : List Nat} {S T : ASet} (h : ∀ a, S a = true → T a = true) (hh : HitsL args S) : HitsL args T := by
  obtain ⟨a, ha, hs⟩ := hh
  exact ⟨a, ha, h a hs⟩

/-- the merged component `c` first, then the components found by the loop: a partition; the
concatenation of one extension per component is an extension of the framework, and it meets the
queried arguments (all in `c`) exactly where the first part does -/
theorem assemble_cert {g : G} {v : FwView} (hv : v.Ok g) (σ : Sem) {c : Comp} (hgood : GoodComp g c)
    {args : List Nat} (hin : ∀ a ∈ args, a ∈ c.ids) (r0 : List Nat)
    (h0 : (g.restrict c.memB).Ext σ (ofList r0)) (h0in : ∀ a ∈ r0, a ∈ c.ids)
    (cs : List Comp) (rs : List (List Nat)) (hlen : rs.length = cs.length) (hgs : ∀ c' ∈ cs, GoodComp g c')
    (hdisj : cs.Pairwise (fun c c' => ∀ a, a ∈ c.ids → a ∉ c'.ids))
    (hun : ∀ c' ∈ cs, ∀ a ∈ c'.ids, ¬ a ∈ c.ids)
    (hcov : ∀ a, g.live a = true → a ∈ c.ids ∨ ∃ c' ∈ cs, a ∈ c'.ids)
    (hext : ∀ (i : Nat) (c' : Comp) (r : List Nat), cs[i]? = some c' → rs[i]? = some r →
      (g.restrict c'.memB).Ext σ (ofList r) ∧ ∀ a ∈ r, a ∈ c'.ids) :
    g.Ext σ (ofList (r0 ++ rs.flatten)) ∧ (HitsL args (ofList (r0 ++ rs.flatten)) ↔ HitsL args (ofList r0)) := by
  have hgood' : ∀ c' ∈ c :: cs, GoodComp g c' := by
    intro c' hc'
    rcases List.mem_cons.1 hc' with rfl | hc'
    · exact hgood
    · exact hgs c' hc'
  have hdisj' : (c :: cs).Pairwise (fun c c' => ∀ a, a ∈ c.ids → a ∉ c'.ids) := by
    rw [List.pairwise_cons]
    exact ⟨fun c' hc' a ha ha' => hun c' hc' a ha' ha, hdisj⟩
  have hcov' : ∀ a, g.live a = true → ∃ c' ∈ c :: cs, a ∈ c'.ids := by
    intro a ha
    rcases hcov a ha with h | ⟨c', hc', hac⟩
    · exact ⟨c, by simp, h⟩
    · exact ⟨c', by simp [hc'], hac⟩
  have hparts := comps_parts hgood' hdisj' hcov'
  have hall : ∀ (i : Nat) (c' : Comp) (r : List Nat), (c :: cs)[i]? = some c' → (r0 :: rs)[i]? = some r →
      (g.restrict c'.memB).Ext σ (ofList r) ∧ ∀ a ∈ r, a ∈ c'.ids := by
    intro i c' r hci hri
    cases i with
    | zero =>
      simp only [List.getElem?_cons_zero, Option.some.injEq] at hci hri
      subst hci; subst hri; exact ⟨h0, h0in⟩
    | succ j =>
      simp only [List.getElem?_cons_succ] at hci hri
      exact hext j c' r hci hri
  have hfl : r0 ++ rs.flatten = (r0 :: rs).flatten := by simp
  refine ⟨?_, ?_⟩
  · rw [hfl]
    exact (assemble_ext hparts hgood' hv.fin σ (r0 :: rs) (by simp [hlen])
      (fun i c' r hc hr => (hall i c' r hc hr).2)).2 (fun i c' r hc hr => (hall i c' r hc hr).1)
  · constructor
    · rintro ⟨a, ha, hs⟩
      refine ⟨a, ha, ?_⟩
      rw [ofList_mem] at hs ⊢
      rcases List.mem_append.1 hs with h | h
      · exact h
      · exfalso
        obtain ⟨r, hr, har⟩ := List.mem_flatten.1 h
        obtain ⟨i, hi, hri⟩ := List.mem_iff_getElem.1 hr
        have hi' : i < cs.length := by omega
        have hc : cs[i]? = some cs[i] := List.getElem?_eq_getElem hi'
        have hr' : rs[i]? = some r := by rw [List.getElem?_eq_getElem hi, hri]
        exact hun _ (List.getElem_mem hi') a ((hext i _ r hc hr').2 a har) (hin a ha)
    · exact hitsL_mono (fun a h => by rw [ofList_mem] at h ⊢; exact List.mem_append_left _ h)

/-! ## DC-CO with certificate -/

/-- **DC-CO** (certificate variant) -/
theorem co_dc_cert_ok (cfg : Cfg) (hk : ∀ af T, cfg.enc.Base af T ↔ Complete af T) (v : FwView) (g : G) (hv : v.Ok g)
    (args : List Nat) (hargs : ∀ a ∈ args, g.live a = true) (w : World) (hb : w.Bounded) :
    wp True (coDCcert cfg v args) w (fun a _ => DCOK .CO g args true a) := by
  unfold coDCcert
  simp only [Prog.bind_eq]
  rw [wp_bind]
  apply wp_needComp trivial
  intro c cc hcc
  obtain ⟨c', hc', hgood, hin, hI⟩ := CC.mergedOf_spec v g hv args hargs _ _ hcc
  injection hc' with hc'; subst hc'
  have hwf := Comp.af_wf hgood
  simp only
  rw [wp_bind, wp_mkSolver, wp_bind]
  have hlen : w.solvers.length < w.onNew.solvers.length := by simp [World.onNew]
  apply wp_encodeInto _ _ _ _ _ (Bounded_onNew hb) hlen (db_onNew_self w)
  intro w1 henc _
  rw [wp_bind, wp_getNVars, wp_bind]
  apply wp_ccArgs trivial
  intro pos hpos
  rw [wp_bind, wp_addClause1, wp_bind]
  generalize hsel : w1.nVarsOf w.solvers.length + 1 = sel
  have hfresh_db : ∀ c' ∈ w1.db w.solvers.length, ∀ l ∈ c', l.var ≠ sel := by
    intro c' hc' l hl; have := henc.db_lt c' hc' l hl; omega
  have hfresh_arg : ∀ a, a < c.af.n → cfg.enc.argVar a ≠ sel := by
    intro a ha; have := henc.argVar_le ha; omega
  have hdb : ∀ ν, cnfTrue ν (w1.db w.solvers.length) = cnfTrue ν (cfg.enc.clauses c.af) := by
    intro ν
    rw [henc.db]
    simp [cnfTrue, List.all_reverse]
  have hkey := co_cred_lift hv hgood hin hpos
  refine ⟨?_, ?_⟩
  · rintro m ⟨_, hΓ, hA⟩
    simp only [db_onClause_same, db_onNVars] at hΓ
    obtain ⟨hco, hhit⟩ := co_query_sat cfg hk c hwf hgood.n_eq hpos _ hdb sel m hΓ hA
    have hlt : ∀ i ∈ cfg.enc.decode c.af.n m, i < c.af.n := fun i hi => hco.1.1.1 i ((ofList_mem _ i).2 hi)
    show wp True ((otherCompsWith v _ cfg.fuel cc _).bind _) _ _
    rw [wp_bind]
    have hbw : ((((w1.onNVars w.solvers.length).onClause w.solvers.length (pos.map (argLit cfg.enc) ++ [nl sel])).onSolve
        w.solvers.length [pl sel]).onReply w.solvers.length (.sat m)).Bounded :=
      Bounded_onReply (Bounded_onSolve (Bounded_onClause (Bounded_onNVars henc.bounded _) _ _) _ _) _ _
    refine wp_mono _ _ _ _ ?_ (wp_otherCompsWith v g hv (fun oc => pure (oc.back (groundedV oc.af.view)))
      (fun oc r => r = oc.back (groundedV oc.af.view)) (fun oc w' hb' _ => ⟨hb', rfl⟩) cfg.fuel cc _ _ _ hI hbw)
    rintro res w' ⟨_, cs, rs, hlen', hres, hgs, hdisj, hun, hcov, hall⟩
    obtain ⟨hext, hhits⟩ := assemble_cert hv .CO hgood hin (c.back (cfg.enc.decode c.af.n m))
      ((Comp.ext_back_iff hgood .CO _ hlt).1 hco) (Comp.back_mem hgood _) cs rs hlen' hgs hdisj hun hcov (by
        intro i c' r hci hri
        have hg' := hgs c' (List.mem_of_getElem? hci)
        have hgr := GrOK_of_wf c'.af (Comp.af_wf hg')
        rw [hall i c' r hci hri]
        exact ⟨(Comp.ext_back_iff hg' .CO _ hgr.2.1).1 hgr.1, Comp.back_mem hg' _⟩)
    rw [← hres] at hext hhits
    have hh : HitsL args (ofList res) := by
      rw [hhits, Comp.ofList_back hgood _ hlt]
      exact (hits_up hgood hpos _).1 hhit
    show DCOK .CO g args true ⟨true, some res⟩
    exact ⟨fun _ => ⟨⟨_, hext, hh⟩, fun _ => ⟨res, rfl, hext, hh⟩⟩, fun hf => by cases hf⟩
  · intro hunsat
    simp only [db_onClause_same, db_onNVars] at hunsat
    have hno := co_query_unsat cfg hk c hwf pos _ hdb sel hfresh_db hfresh_arg hunsat
    show DCOK .CO g args true ⟨false, none⟩
    exact ⟨fun hf => (by cases hf), fun _ => ⟨fun hn => hno (hkey.2 hn), fun _ => rfl⟩⟩

/-! ## DS-PR with certificate -/

/-- **DS-PR** (certificate variant) -/
theorem pr_ds_cert_ok (cfg : Cfg) (hk : ∀ af T, cfg.enc.Base af T ↔ Complete af T) (v : FwView) (g : G) (hv : v.Ok g)
    (args : List Nat) (hargs : ∀ a ∈ args, g.live a = true) (w : World) (hb : w.Bounded) :
    wp True (prDScert cfg v args) w (fun a _ => DSOK .PR g args true a) := by
  unfold prDScert
  simp only [Prog.bind_eq]
  rw [wp_bind]
  apply wp_needComp trivial
  intro c cc hcc
  obtain ⟨c', hc', hgood, hin, hI⟩ := CC.mergedOf_spec v g hv args hargs _ _ hcc
  injection hc' with hc'; subst hc'
  simp only
  rw [wp_bind]
  refine wp_mono _ _ _ _ ?_ (wp_prSkeptInCc cfg hk c args false (Comp.af_wf hgood) (GrOK_of_wf _ (Comp.af_wf hgood)) w hb)
  rintro ⟨st, ce⟩ w1 ⟨hb1, hres⟩
  obtain ⟨pos, hpos⟩ := posAll_of_mem c args hin
  obtain ⟨h1, h2⟩ := hres pos hpos
  have hex : ∃ S0, g.Ext .PR S0 := G.exists_preferred g hv.fin
  cases st with
  | true =>
    show DSOK .PR g args true ⟨true, none⟩
    refine ⟨fun _ => ⟨?_, fun _ => rfl⟩, fun hf => (by cases hf)⟩
    intro S hS
    have hall := (h1 rfl).2
    have := (comp_ext_forall hgood hv.fin .PR hex (HitsL args)).1
      (fun T hT => (hits_up hgood hpos T).1 (hall T hT)) S ((gext_iff .PR g S).1 hS)
    exact (hitsL_inter hin S).1 this
  | false =>
    obtain ⟨e, he, hpref, hnh, hlt⟩ := (h2 rfl).2 rfl
    simp only at he
    subst he
    show wp True ((otherCompsWith v _ cfg.fuel cc _).bind _) _ _
    rw [wp_bind]
    refine wp_mono _ _ _ _ ?_ (wp_otherCompsWith v g hv (prMaximalOfComp cfg)
      (fun oc r => ∃ e, r = oc.back e ∧ Preferred oc.af (ofList e) ∧ ∀ a ∈ e, a < oc.af.n)
      (fun oc w' hb' hg' => wp_prMaximalOfComp cfg hk oc (Comp.af_wf hg') (GrOK_of_wf _ (Comp.af_wf hg')) w' hb')
      cfg.fuel cc _ _ _ hI hb1)
    rintro res w' ⟨_, cs, rs, hlen', hres', hgs, hdisj, hun, hcov, hall⟩
    obtain ⟨hext, hhits⟩ := assemble_cert hv .PR hgood hin (c.back e)
      ((Comp.ext_back_iff hgood .PR _ hlt).1 hpref) (Comp.back_mem hgood _) cs rs hlen' hgs hdisj hun hcov (by
        intro i c' r hci hri
        have hg' := hgs c' (List.mem_of_getElem? hci)
        obtain ⟨e', rfl, hp', hlt'⟩ := hall i c' r hci hri
        exact ⟨(Comp.ext_back_iff hg' .PR _ hlt').1 hp', Comp.back_mem hg' _⟩)
    rw [← hres'] at hext hhits
    have hn : ¬ HitsL args (ofList res) := by
      rw [hhits, Comp.ofList_back hgood _ hlt]
      exact fun hh => hnh ((hits_up hgood hpos _).2 hh)
    show DSOK .PR g args true ⟨false, some res⟩
    exact ⟨fun hf => (by cases hf), fun _ => ⟨⟨_, hext, hn⟩, fun _ => ⟨res, rfl, hext, hn⟩⟩⟩

/-! ## entry points -/

theorem DCOK_false_strip {σ : Sem} {g : G} {args : List Nat} {a : AccAns} (h : DCOK σ g args false a) :
    DCOK σ g args false ⟨a.status, none⟩ :=
  ⟨fun hs => ⟨(h.1 hs).1, fun hc => by cases hc⟩, fun hs => ⟨(h.2 hs).1, fun hc => by cases hc⟩⟩

theorem DSOK_false_strip {σ : Sem} {g : G} {args : List Nat} {a : AccAns} (h : DSOK σ g args false a) :
    DSOK σ g args false ⟨a.status, none⟩ :=
  ⟨fun hs => ⟨(h.1 hs).1, fun hc => by cases hc⟩, fun hs => ⟨(h.2 hs).1, fun hc => by cases hc⟩⟩

/-- **all entry points of the preferred solver** (`se`, `ds` with and without certificate) -/
theorem pr_entry_ok (cfg : Cfg) (hk : ∀ af T, cfg.enc.Base af T ↔ Complete af T) (v : FwView) (g : G) (hv : v.Ok g)
    (e : Entry) (hargs : ∀ a, a ∈ e.argsList → g.live a = true) (p : Prog Ans)
    (hp : entryProg .PR cfg v e = some p) (w : World) (hb : w.Bounded) :
    wp True p w (fun ans _ => EntryOK .PR g e ans) := by
  cases e with
  | se =>
    simp only [entryProg, Option.some.injEq] at hp
    subst hp
    simp only [Prog.bind_eq]
    rw [wp_bind]
    exact pr_se_ok cfg hk v g hv w hb
  | dc cert args => simp [entryProg] at hp
  | ds cert args =>
    simp only [entryProg, Option.some.injEq] at hp
    subst hp
    unfold certOnly
    simp only [Prog.bind_eq]
    rw [wp_bind]
    cases cert with
    | true =>
      simp only [if_true]
      refine wp_mono _ _ _ _ ?_ (pr_ds_cert_ok cfg hk v g hv args hargs w hb)
      intro a _ ha
      exact ⟨rfl, ha, fun hc => by cases hc⟩
    | false =>
      simp only [Bool.false_eq_true, if_false]
      refine wp_mono _ _ _ _ ?_ (pr_ds_ok cfg hk v g hv args hargs w hb)
      intro a _ ha
      exact ⟨rfl, DSOK_false_strip ha.1, fun _ => rfl⟩

/-- **all entry points of the complete solver** (`dc` with and without certificate) -/
theorem co_entry_ok (cfg : Cfg) (hk : ∀ af T, cfg.enc.Base af T ↔ Complete af T) (v : FwView) (g : G) (hv : v.Ok g)
    (e : Entry) (hargs : ∀ a, a ∈ e.argsList → g.live a = true) (p : Prog Ans)
    (hp : entryProg .CO cfg v e = some p) (w : World) (hb : w.Bounded) :
    wp True p w (fun ans _ => EntryOK .CO g e ans) := by
  cases e with
  | se => simp [entryProg] at hp
  | ds cert args => simp [entryProg] at hp
  | dc cert args =>
    simp only [entryProg, Option.some.injEq] at hp
    subst hp
    unfold certOnly
    simp only [Prog.bind_eq]
    rw [wp_bind]
    cases cert with
    | true =>
      simp only [if_true]
      refine wp_mono _ _ _ _ ?_ (co_dc_cert_ok cfg hk v g hv args hargs w hb)
      intro a _ ha
      exact ⟨rfl, ha, fun hc => by cases hc⟩
    | false =>
      simp only [Bool.false_eq_true, if_false]
      refine wp_mono _ _ _ _ ?_ (co_dc_ok cfg hk v g hv args hargs w hb)
      intro a _ ha
      exact ⟨rfl, DCOK_false_strip ha.1, fun _ => rfl⟩

end Crusta
