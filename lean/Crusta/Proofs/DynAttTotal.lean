import Crusta.Proofs.DynAttHistory
import Crusta.Proofs.DynTotal

/-!
# The attack-assumption dynamic solvers never panic on a supported query about an existing argument

`DynAttQuery.lean` / `DynAttHistory.lean` prove crash-tolerantly (`wp True`) that every answer of the
two solvers of `src/dynamics/assumptions_on_attacks` is right.  Here every `crash` node of the model
(`Crusta/Model/DynAtt.lean`) is shown unreachable on replies a correct SAT solver may give, for every
history of update calls and completed queries (`wp False`):

* `encNewArgument` / `encRemoveArgument` / `encAttack` (`max_argument_id` on an empty framework, index
  out of bounds on `solver_vars`, a failing store update) and `AEnc.updateEncoding` (semantics not
  handled, `n_arg_vars - n_args` underflow with a factor below 1): the replay of the buffer and the
  re-encoding, `wp_updateEncoding`, already generic in what a crash node counts as — the buffered events
  are effective (`EffRun`), the factor is at least 1 (`WInv.fac`);
* `AEnc.assumptions` (an attack on an argument without a solver variable) and `ADState.argLit`: after
  `update_encoding` every live argument has a variable (`AInv.av_live`, `assumptions_total`);
* `needLabels` on ids decoded from a model: they are ids of the framework (`AInv.ty_arg`,
  `argsWhere_live`); on the targets of the attacks of the queried argument: `Store.g_wf`;
* `fromCache` (`needLabels` on a *cached* extension, read against the solver's own framework `af`, which
  lags behind the pending one): a cached extension is read only when no update follows it in the
  buffer; then nothing is waiting to be replayed (`TailSync`), the solver's framework *is* the pending
  one, of which the cached extension is an extension (`ACacheSound`), so its ids are live.

`TailSync` is **not** part of `AQInv` (the invariant of `DynAttQuery.lean`), and `AQInv` alone does not
exclude the last crash node: the state with `buffer = [newArg 1, cred [1] [] (some [0])]`, `next = 0`,
`af` empty and `pending` the framework with the one argument `1` satisfies `AQInv` and panics in
`fromCache` on the credulous query about `1`.  That state is not reachable: `TailSync` holds initially
and is kept by every update and every query (`ATInv`, `reach_tinv`).  So `query_total` is stated for
`ATInv = AQInv ∧ TailSync`, and the statements over histories (`att_never_panics`, `att_run_total`)
carry no hypothesis beyond those of `answers_correct`.

The only remaining crash nodes are the `unimplemented!()` entry points (`query` on `.CO, .skep`, and
anything on `.PR`, a semantics these solvers are not instantiated with), excluded by `AttSupported`.
-/

namespace Crusta.DynAtt
open Crusta Crusta.Dyn Crusta.Store

/-! ## the cache is read only when the solver's framework is the pending one -/

/-- as long as no update follows the last computation of the buffer (so that a query may answer from
the cache), no update is waiting to be replayed -/
def TailSync (d : ADState) : Prop :=
  d.buffer.reverse.takeWhile (fun ev => !ev.isUpdate) ≠ [] → ∀ ev ∈ d.buffer.drop d.next, ev.isUpdate = false

theorem op_none_of_not_update {ev : Event} (h : ev.isUpdate = false) : Event.op ev = none := by
  cases ev <;> simp_all [Event.isUpdate, Event.op]

theorem EffRun_no_update : ∀ (evs : List Event) (st st' : Store),
    (∀ ev ∈ evs, ev.isUpdate = false) → EffRun st evs st' → st' = st
  | [], _, _, _, h => h
  | ev :: rest, st, st', hall, h => by
    have hop := op_none_of_not_update (hall ev List.mem_cons_self)
    simp only [EffRun, hop] at h
    exact EffRun_no_update rest st st' (fun e he => hall e (List.mem_cons_of_mem _ he)) h

/-- the invariant of `DynAttQuery.lean` together with `TailSync`: what the queries need in order not
to panic -/
structure ATInv (sem : DSem) (d : ADState) (w : World) : Prop where
  qinv : AQInv sem d w
  tail : TailSync d

/-- when a query may answer from the cache, the solver's framework is the pending one -/
theorem ATInv.af_eq {sem : DSem} {d : ADState} {w : World} (h : ATInv sem d w)
    (hne : d.buffer.reverse.takeWhile (fun ev => !ev.isUpdate) ≠ []) : d.af = d.pending :=
  (EffRun_no_update _ _ _ (h.tail hne) h.qinv.dinv.sync).symm

theorem TailSync_push (d : ADState) (c : Event) (hnext : d.next = d.buffer.length) (hc : c.isUpdate = false) :
    TailSync { d with buffer := d.buffer ++ [c] } := by
  intro _ ev hev
  have : ({ d with buffer := d.buffer ++ [c] } : ADState).buffer.drop
      ({ d with buffer := d.buffer ++ [c] } : ADState).next = [c] := by
    show (d.buffer ++ [c]).drop d.next = [c]
    rw [hnext, List.drop_append_of_le_length (Nat.le_refl _), List.drop_length, List.nil_append]
  rw [this] at hev
  rw [List.mem_singleton.1 hev]
  exact hc

theorem TailSync_init (sem : DSem) (num den : Nat) : TailSync (ADState.init sem num den) := by
  intro hne
  exact absurd rfl hne

/-- an update call leaves the replay position alone and appends at most one update to the buffer -/
theorem update_shape (d : ADState) (op : StoreOp) :
    (d.update op).1.next = d.next ∧
    ((d.update op).1.buffer = d.buffer ∨
      ∃ ev, ev.isUpdate = true ∧ (d.update op).1.buffer = d.buffer ++ [ev]) := by
  cases op with
  | newArg l =>
    simp only [ADState.update]
    split
    · exact ⟨rfl, Or.inr ⟨.newArg l, rfl, rfl⟩⟩
    · exact ⟨rfl, Or.inl rfl⟩
  | remArg l =>
    simp only [ADState.update]
    split
    · exact ⟨rfl, Or.inr ⟨.remArg l, rfl, rfl⟩⟩
    · exact ⟨rfl, Or.inl rfl⟩
    · exact ⟨rfl, Or.inl rfl⟩
  | newAtt a b =>
    simp only [ADState.update]
    split
    · split
      · exact ⟨rfl, Or.inr ⟨.newAtt a b, rfl, rfl⟩⟩
      · exact ⟨rfl, Or.inl rfl⟩
    · exact ⟨rfl, Or.inl rfl⟩
    · exact ⟨rfl, Or.inl rfl⟩
  | remAtt a b =>
    simp only [ADState.update]
    split
    · exact ⟨rfl, Or.inr ⟨.remAtt a b, rfl, rfl⟩⟩
    · exact ⟨rfl, Or.inl rfl⟩
    · exact ⟨rfl, Or.inl rfl⟩

theorem TailSync_update {d : ADState} (h : TailSync d) (op : StoreOp) : TailSync (d.update op).1 := by
  obtain ⟨hn, hb | ⟨ev, hev, hb⟩⟩ := update_shape d op
  · intro hne
    rw [hb, hn]
    rw [hb] at hne
    exact h hne
  · intro hne
    rw [hb, tail_after_update _ _ hev] at hne
    exact absurd rfl hne

/-- the update entry points keep the strengthened invariant -/
theorem update_preserves_tinv {sem : DSem} {d : ADState} {w : World} (h : ATInv sem d w) (op : StoreOp) :
    ATInv sem (d.update op).1 w :=
  ⟨(update_preserves h.qinv op).1, TailSync_update h.tail op⟩

theorem ATInv_init (sem : DSem) (hsem : sem ≠ .PR) (num den : Nat) (hfac : 0 < den ∧ den ≤ num) :
    ATInv sem (ADState.init sem num den) ({} : World).onNew :=
  ⟨AQInv_init sem hsem num den hfac, TailSync_init sem num den⟩

/-! ## decoding -/

/-- the ids decoded from a model are ids of the framework -/
theorem argsWhere_live {st : Store} {e : AEnc} {Γ : Cnf} (h : AInv st e Γ) (m : Model)
    (p : Option Bool → Bool) : ∀ a ∈ e.argsWhere m p, st.hasId a = true := by
  intro a ha
  obtain ⟨i, b, _, _, hty⟩ := (mem_argsWhere e m p a).1 ha
  exact (h.ty_arg (i + 1) a hty).1

/-! ## the SAT calls -/

/-- the SAT call of a credulous query reaches no crash node, and leaves nothing to be replayed -/
theorem credSolve_safe {C : Prop} {sem : DSem} {d : ADState} {w : World} (h : AQInv sem d w)
    (hneed : d.enc.needToEncode = false)
    (hsync : d.af = d.pending) (hnext : d.next = d.buffer.length) {l id : Nat} (hl : d.pending.Live id l) :
    wp C (credSolve d l) w (fun r _ => TailSync r.1) := by
  have hI : AInv d.af d.enc (w.db d.enc.solver) := h.dinv.est.2 hneed
  unfold credSolve
  rw [wp_bind, wp_assumptions h hneed]
  obtain ⟨as, has, _⟩ := assumptions_total h.dinv.af_inv hI
  refine ⟨as, has, ?_⟩
  rw [wp_bind, wp_argLit h hneed hsync hl]
  constructor
  · intro m _
    simp only
    rw [wp_bind]
    apply wp_needLabels _ _ _ _ (argsWhere_live hI m _)
    intro acc _
    rw [wp_bind]
    apply wp_needLabels _ _ _ _ (argsWhere_live hI m _)
    intro _ _
    exact TailSync_push d _ hnext rfl
  · intro _
    exact TailSync_push d _ hnext rfl

/-- the SAT call of a skeptical query of the stable solver reaches no crash node -/
theorem stSkepSolve_safe {C : Prop} {sem : DSem} {d : ADState} {w : World} (h : AQInv sem d w)
    (hneed : d.enc.needToEncode = false)
    (hsync : d.af = d.pending) (hnext : d.next = d.buffer.length) {l id : Nat} (hl : d.pending.Live id l) :
    wp C (stSkepSolve d l) w (fun r _ => TailSync r.1) := by
  have hI : AInv d.af d.enc (w.db d.enc.solver) := h.dinv.est.2 hneed
  unfold stSkepSolve
  rw [wp_bind, wp_assumptions h hneed]
  obtain ⟨as, has, _⟩ := assumptions_total h.dinv.af_inv hI
  refine ⟨as, has, ?_⟩
  rw [wp_bind, wp_argLit h hneed hsync hl]
  constructor
  · intro m _
    simp only
    rw [wp_bind]
    apply wp_needLabels _ _ _ _ (argsWhere_live hI m _)
    intro ref _
    rw [wp_bind]
    apply wp_needLabels _ _ _ _ (argsWhere_live hI m _)
    intro _ _
    exact TailSync_push d _ hnext rfl
  · intro _
    simp only
    rw [wp_bind, wp_needArg h.dinv.af_inv (by rw [hsync]; exact hl), wp_bind]
    apply wp_needLabels _ _ _ _ (by
      intro j hj
      obtain ⟨p, hp, rfl⟩ := List.mem_map.1 hj
      have hatt := ((mem_iterFrom h.dinv.af_inv id p).1 hp).2
      exact (Store.g_wf h.dinv.af_inv _ _ hatt).2)
    intro ref _
    exact TailSync_push d _ hnext rfl

/-! ## the queries: cache or recompute -/

/-- answering from the cache does not panic: the cached extension was computed for the framework the
solver still holds (`ATInv.af_eq`), so its ids are ids of that framework -/
theorem wp_fromCache {C : Prop} {sem : DSem} {d : ADState} {w : World} (h : ATInv sem d w) {b : Bool} {e : List Nat}
    {c : Event} (hcm : c ∈ d.buffer.reverse.takeWhile (fun ev => !ev.isUpdate)) {acc ref : List Nat}
    (hcc : c = .cred acc ref (some e) ∨ c = .skep acc ref (some e)) (Q : ADState × AccAns → World → Prop)
    (hQ : Q (d, ⟨b, some e⟩) w) : wp C (fromCache d b e) w Q := by
  have hsync : d.af = d.pending := h.af_eq (List.ne_nil_of_mem hcm)
  have hext : IsExt sem d.pending.g (ofList e) := by
    have hsound := h.qinv.cache c hcm
    rcases hcc with rfl | rfl
    · exact (hsound e rfl).1
    · exact (hsound e rfl).1
  unfold fromCache
  rw [wp_bind]
  apply wp_needLabels
  · intro i hi
    rw [hsync]
    exact isExt_live hext i (List.contains_iff_mem.2 hi)
  · intro _ _
    exact hQ

/-- credulous acceptance (both solvers) reaches no crash node -/
theorem credQuery_safe {C : Prop} {sem : DSem} {d : ADState} {w : World} (h : ATInv sem d w)
    {l id : Nat} (hl : d.pending.Live id l) :
    wp C (credQuery d l) w (fun r _ => TailSync r.1) := by
  unfold credQuery
  split
  · rename_i b e hc
    obtain ⟨_, c, hcm, acc, ref, hcc, _⟩ := cachedCred_spec _ _ _ _ hc
    exact wp_fromCache h hcm hcc _ h.tail
  · rw [wp_bind]
    refine wp_mono _ _ _ _ ?_ (wp_updateEncoding h.qinv.dinv)
    rintro d' w' ⟨hd, hneed, haf, hp, hb, hn⟩
    have hq := AQInv_of_update h.qinv hd hp hb
    exact credSolve_safe hq hneed (by rw [haf, hp]) (by rw [hn, hb]) (l := l) (id := id)
      (by rw [hp]; exact hl)

/-- skeptical acceptance (stable solver) reaches no crash node -/
theorem stSkepQuery_safe {C : Prop} {sem : DSem} {d : ADState} {w : World} (h : ATInv sem d w)
    {l id : Nat} (hl : d.pending.Live id l) :
    wp C (stSkepQuery d l) w (fun r _ => TailSync r.1) := by
  unfold stSkepQuery
  split
  · rename_i b e hc
    obtain ⟨_, c, hcm, acc, ref, hcc, _⟩ := cachedSkep_spec _ _ _ _ hc
    exact wp_fromCache h hcm hcc _ h.tail
  · rw [wp_bind]
    refine wp_mono _ _ _ _ ?_ (wp_updateEncoding h.qinv.dinv)
    rintro d' w' ⟨hd, hneed, haf, hp, hb, hn⟩
    have hq := AQInv_of_update h.qinv hd hp hb
    exact stSkepSolve_safe hq hneed (by rw [haf, hp]) (by rw [hn, hb]) (l := l) (id := id)
      (by rw [hp]; exact hl)

/-! ## total correctness of one query -/

/-- the queries an attack-assumption solver offers: the complete-semantics solver
(`DynamicCompleteSemanticsSolverAttacks`) answers credulous queries only — its skeptical entry point
is `unimplemented!()`, a crash node of the model —, the stable-semantics solver answers both; the
solvers are not instantiated with the preferred semantics -/
def AttSupported : DSem → DQuery → Prop
  | .CO, .cred => True
  | .ST, _ => True
  | _, _ => False

theorem AttSupported.sem_ne {sem : DSem} {q : DQuery} (h : AttSupported sem q) : sem ≠ .PR := by
  intro hs; subst hs; cases q <;> exact h

/-- crash-tolerant correctness of one query in the calculus (the statement behind `query_ok`) -/
theorem query_partial {sem : DSem} (hsem : sem ≠ .PR) {d : ADState} {w : World} (h : AQInv sem d w)
    (q : DQuery) {l id : Nat} (hl : d.pending.Live id l) :
    wp True (query d q l) w (fun r w' => AQInv sem r.1 w' ∧ r.1.pending = d.pending ∧
      AnswerOK sem d.pending q l r.2) := by
  have henc : d.enc.sem = sem := h.dinv.est.1.sem_eq
  unfold query
  rw [henc]
  cases sem with
  | PR => exact absurd rfl hsem
  | CO =>
    cases q with
    | cred => exact wp_credQuery hsem h hl
    | skep => exact trivial
  | ST =>
    cases q with
    | cred => exact wp_credQuery hsem h hl
    | skep => exact wp_stSkepQuery h hl

/-- a supported query reaches no crash node and keeps `TailSync` -/
theorem query_safe {sem : DSem} {d : ADState} {w : World} (h : ATInv sem d w)
    (q : DQuery) (hq : AttSupported sem q) {l id : Nat} (hl : d.pending.Live id l) :
    wp False (query d q l) w (fun r _ => TailSync r.1) := by
  have henc : d.enc.sem = sem := h.qinv.dinv.est.1.sem_eq
  unfold query
  rw [henc]
  cases sem with
  | PR => cases q <;> exact hq.elim
  | CO =>
    cases q with
    | cred => exact credQuery_safe h hl
    | skep => exact hq.elim
  | ST =>
    cases q with
    | cred => exact credQuery_safe h hl
    | skep => exact stSkepQuery_safe h hl

/-- **total correctness of one query in the calculus.**  In a state satisfying the invariant
(`ATInv`: the invariant `AQInv` of the answer theorems, and `TailSync`), a query the solver offers —
`AttSupported`: the complete-semantics solver has no skeptical query (`unimplemented!()` in Rust,
`crash "not implemented"` in the model) — about an argument of the current framework reaches **no**
crash node whatever a correct SAT solver replies, returns the right answer for the pending framework,
leaves it unchanged and re-establishes the invariant.  (`AQInv` alone is not enough: see the header.) -/
theorem query_total {sem : DSem} {d : ADState} {w : World} (h : ATInv sem d w)
    (q : DQuery) (hq : AttSupported sem q) {l id : Nat} (hl : d.pending.Live id l) :
    wp False (query d q l) w (fun r w' => ATInv sem r.1 w' ∧ r.1.pending = d.pending ∧
      AnswerOK sem d.pending q l r.2) := by
  refine wp_mono _ _ _ _ ?_ (wp_andT _ _ _ _ (query_safe h q hq hl) (query_partial hq.sem_ne h.qinv q hl))
  rintro r w' ⟨ht, hq', hp, ha⟩
  exact ⟨⟨hq', ht⟩, hp, ha⟩

/-- one supported query on a state satisfying the invariant never panics on sound replies -/
theorem query_never_panics {sem : DSem} {d : ADState} {w : World} (h : ATInv sem d w)
    (q : DQuery) (hq : AttSupported sem q) {l id : Nat} (hl : d.pending.Live id l)
    {rs : List Reply} (hs : RunSound (query d q l) rs w) :
    ∀ msg w', interp (query d q l) rs w ≠ (.crashed msg, w') :=
  wp_no_crash _ rs w _ (query_total h q hq hl) hs

/-- the outcome of one supported query on sound replies: the right answer in a state that satisfies
the invariant again, or an abort on `unknown`, or a reply list that is too short -/
theorem query_outcome {sem : DSem} {d : ADState} {w : World} (h : ATInv sem d w)
    (q : DQuery) (hq : AttSupported sem q) {l id : Nat} (hl : d.pending.Live id l)
    {rs : List Reply} (hs : RunSound (query d q l) rs w) :
    (∃ d' a w', interp (query d q l) rs w = (.done (d', a), w') ∧ ATInv sem d' w' ∧
        d'.pending = d.pending ∧ AnswerOK sem d.pending q l a) ∨
    (∃ w', interp (query d q l) rs w = (.abort, w')) ∨
    (∃ w', interp (query d q l) rs w = (.starved, w')) := by
  rcases wp_outcome _ rs w _ (query_total h q hq hl) hs with ⟨⟨d', a⟩, w', hrun, hpost⟩ | hr
  · exact Or.inl ⟨d', a, w', hrun, hpost⟩
  · exact Or.inr hr

/-! ## every history -/

/-- **every reachable state satisfies the strengthened invariant** (so `TailSync` is no restriction
on the states the solvers can be in) -/
theorem reach_tinv {sem : DSem} (hsem : sem ≠ .PR) {num den : Nat} (hfac : 0 < den ∧ den ≤ num)
    {ops : List StoreOp} {d : ADState} {w : World} (h : Reach sem num den ops d w) : ATInv sem d w := by
  induction h with
  | init => exact ATInv_init sem hsem num den hfac
  | @update ops d w op _ ih => exact update_preserves_tinv ih op
  | @query ops d w q l id rs d' a w' _ hl hs hrun ih =>
    -- a run that returned did not go through an unsupported entry point
    have hq : AttSupported sem q := by
      have henc : d.enc.sem = sem := ih.qinv.dinv.est.1.sem_eq
      cases sem with
      | PR => exact absurd rfl hsem
      | ST => cases q <;> trivial
      | CO =>
        cases q with
        | cred => trivial
        | skep =>
          exfalso
          have : query d .skep l = .crash "not implemented" := by
            unfold query; rw [henc]
          rw [this] at hrun
          simp [interp] at hrun
    exact (wp_sound _ rs w w' (d', a) _ (query_total ih q hq hl) hs hrun).1

/-- **the attack-assumption solvers never panic.**  After any history of update calls (valid,
redundant or rejected) and completed queries, with any reservation factor `num / den ≥ 1`, a query
the solver offers (`AttSupported`: no skeptical query on the complete-semantics solver) about an
argument of the current framework, run on replies a correct SAT solver may give, reaches no crash
node of the model: no `unwrap()` on a missing variable, label or cached id, no index out of bounds,
no arithmetic underflow in the re-encoding, no failing replayed update. -/
theorem att_never_panics {sem : DSem} {num den : Nat} (hfac : 0 < den ∧ den ≤ num)
    {ops : List StoreOp} {d : ADState} {w : World} (h : Reach sem num den ops d w)
    (q : DQuery) (hq : AttSupported sem q) {l id : Nat} (hl : d.pending.Live id l)
    {rs : List Reply} (hs : RunSound (query d q l) rs w) :
    ∀ msg w', interp (query d q l) rs w ≠ (.crashed msg, w') :=
  query_never_panics (reach_tinv hq.sem_ne hfac h) q hq hl hs

/-- **the attack-assumption solvers stay usable.**  Under the same hypotheses the run ends with the
right answer (status and certificate for the framework obtained by applying the accepted updates), in
a state that is again reachable — hence satisfies the invariants `AQInv` and `TailSync`, so the next
call finds a usable solver — with the pending framework unchanged; or the SAT solver gave up
(`unknown`: the query is aborted); or the recorded reply list is too short.  It never panics. -/
theorem att_run_total {sem : DSem} {num den : Nat} (hfac : 0 < den ∧ den ≤ num)
    {ops : List StoreOp} {d : ADState} {w : World} (h : Reach sem num den ops d w)
    (q : DQuery) (hq : AttSupported sem q) {l id : Nat} (hl : d.pending.Live id l)
    {rs : List Reply} (hs : RunSound (query d q l) rs w) :
    (∃ d' a w', interp (query d q l) rs w = (.done (d', a), w') ∧
        Reach sem num den ops d' w' ∧ AQInv sem d' w' ∧ TailSync d' ∧ d'.pending = d.pending ∧
        runOps Store.empty ops = some d.pending ∧ AnswerOK sem d.pending q l a) ∨
    (∃ w', interp (query d q l) rs w = (.abort, w')) ∨
    (∃ w', interp (query d q l) rs w = (.starved, w')) := by
  have ht := reach_tinv hq.sem_ne hfac h
  rcases query_outcome ht q hq hl hs with ⟨d', a, w', hrun, ht', hp, ha⟩ | hr
  · exact Or.inl ⟨d', a, w', hrun, Reach.query q l id rs d' a w' h hl hs hrun, ht'.qinv, ht'.tail, hp,
      (reach_inv hq.sem_ne hfac h).2, ha⟩
  · exact Or.inr hr

end Crusta.DynAtt
