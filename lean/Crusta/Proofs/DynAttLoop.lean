import Crusta.Model.DynAtt
import Crusta.Proofs.Wp

/-!
# The re-encoding loops of the attack-assumption encoder, at the level of the SAT interface

`auxLoop` / `rowLoop` ask the solver for `n_vars()` before every cell; on a solver whose `n_vars`
is `N` when a loop starts the auxiliary variables are therefore `N + 1, N + 2, …` — *provided*
every other variable of the emitted clauses is at most `N` (this is what `reserve` is for).  The
theorems below compute the clause database after the loops in closed form.
-/

namespace Crusta.DynAtt
open Crusta Prog

/-! ## bookkeeping on worlds -/

@[simp] theorem len_onClause (w : World) (k : Nat) (c : Clause) :
    (w.onClause k c).solvers.length = w.solvers.length := by
  simp [World.onClause, World.upd]

@[simp] theorem len_onNVars (w : World) (k : Nat) : (w.onNVars k).solvers.length = w.solvers.length := rfl

@[simp] theorem len_onReserve (w : World) (k n : Nat) :
    (w.onReserve k n).solvers.length = w.solvers.length := by
  simp [World.onReserve, World.upd]

@[simp] theorem len_onNew (w : World) : w.onNew.solvers.length = w.solvers.length + 1 := by
  simp [World.onNew]

theorem litsMax_le {c : List Lit} {M : Nat} (h : ∀ l ∈ c, l.var ≤ M) : litsMax c ≤ M := by
  unfold litsMax
  have : ∀ (c : List Lit) (m : Nat), m ≤ M → (∀ l ∈ c, l.var ≤ M) →
      c.foldl (fun m x => max m x.var) m ≤ M := by
    intro c
    induction c with
    | nil => intro m hm _; simpa using hm
    | cons a t ih =>
      intro m hm hc
      simp only [List.foldl_cons]
      apply ih
      · have := hc a (List.mem_cons_self); omega
      · intro l hl; exact hc l (List.mem_cons_of_mem _ hl)
  exact this c 0 (Nat.zero_le _) h

theorem nVarsOf_onClause (w : World) (k : Nat) (c : Clause) (hk : k < w.solvers.length) :
    (w.onClause k c).nVarsOf k = max (w.nVarsOf k) (litsMax c) := by
  have : (w.onClause k c).nVarsOf k =
      (w.upd k (fun st => { st with maxVar := max st.maxVar (litsMax c) })).nVarsOf k := rfl
  rw [this, nVarsOf_upd, if_pos ⟨rfl, hk⟩]
  simp only [SolverSt.nVars, World.nVarsOf]
  omega

theorem nVarsOf_onReserve (w : World) (k n : Nat) (hk : k < w.solvers.length) :
    (w.onReserve k n).nVarsOf k = max (w.nVarsOf k) n := by
  have : (w.onReserve k n).nVarsOf k =
      (w.upd k (fun st => { st with reserved := max st.reserved n })).nVarsOf k := rfl
  rw [this, nVarsOf_upd, if_pos ⟨rfl, hk⟩]
  simp only [SolverSt.nVars, World.nVarsOf]
  omega

theorem nVarsOf_onNew_self (w : World) : w.onNew.nVarsOf w.solvers.length = 0 := by
  simp [World.onNew, World.nVarsOf, SolverSt.nVars, List.getD_eq_getElem?_getD]

/-- the world after a batch of `add_clause` calls on solver `k` -/
def addAll (w : World) (k : Nat) : Cnf → World
  | [] => w
  | c :: cs => addAll (w.onClause k c) k cs

theorem wp_addClauses_bind {β : Type} {C : Prop} (k : Nat) (g : Unit → Prog β) :
    ∀ (f : Cnf) (w : World) (Q : β → World → Prop),
      wp C ((addClauses k f).bind g) w Q ↔ wp C (g ()) (addAll w k f) Q := by
  intro f
  induction f with
  | nil => intro w Q; simp [addClauses, Prog.bind, addAll]
  | cons c cs ih => intro w Q; simp only [addClauses, Prog.bind, wp, addAll]; exact ih _ Q

@[simp] theorem len_addAll (k : Nat) : ∀ (f : Cnf) (w : World), (addAll w k f).solvers.length = w.solvers.length := by
  intro f
  induction f with
  | nil => intro w; rfl
  | cons c cs ih => intro w; simp [addAll, ih]

theorem db_addAll (k : Nat) : ∀ (f : Cnf) (w : World), (addAll w k f).db k = f.reverse ++ w.db k := by
  intro f
  induction f with
  | nil => intro w; simp [addAll]
  | cons c cs ih => intro w; simp [addAll, ih]

theorem nVarsOf_addAll_le (k M : Nat) : ∀ (f : Cnf) (w : World), k < w.solvers.length →
    (∀ c ∈ f, ∀ l ∈ c, l.var ≤ M) → w.nVarsOf k ≤ M → (addAll w k f).nVarsOf k ≤ M := by
  intro f
  induction f with
  | nil => intro w _ _ h; exact h
  | cons c cs ih =>
    intro w hk hf h
    simp only [addAll]
    apply ih _ (by simpa using hk) (fun c' hc' => hf c' (List.mem_cons_of_mem _ hc'))
    rw [nVarsOf_onClause _ _ _ hk]
    have := litsMax_le (hf c List.mem_cons_self)
    omega

theorem nVarsOf_addAll_ge (k : Nat) : ∀ (f : Cnf) (w : World), k < w.solvers.length →
    w.nVarsOf k ≤ (addAll w k f).nVarsOf k ∧ ∀ c ∈ f, ∀ l ∈ c, l.var ≤ (addAll w k f).nVarsOf k := by
  intro f
  induction f with
  | nil => intro w _; exact ⟨Nat.le_refl _, by simp⟩
  | cons c cs ih =>
    intro w hk
    simp only [addAll]
    obtain ⟨h1, h2⟩ := ih (w.onClause k c) (by simpa using hk)
    rw [nVarsOf_onClause _ _ _ hk] at h1
    refine ⟨by omega, ?_⟩
    intro c' hc' l hl
    rcases List.mem_cons.1 hc' with rfl | hc'
    · have := litsMax_ge hl; omega
    · exact h2 c' hc' l hl

/-! ## the inner loop -/

/-- clauses emitted by the inner loop over `as` started with `n_vars() = N` (emission order) -/
def emitted (cell : Nat → Nat → Cnf) : List Nat → Nat → Cnf
  | [], _ => []
  | a :: rest, N => cell a (N + 1) ++ emitted cell rest (N + 1)

/-- the auxiliary literals `N + 1, …, N + m` -/
def auxLits : Nat → Nat → Clause
  | 0, _ => []
  | m + 1, N => pl (N + 1) :: auxLits m (N + 1)

/-- a cell with auxiliary variable `u + 1` mentions `u + 1` and nothing larger, whenever `B ≤ u` -/
def CellOK (cell : Nat → Nat → Cnf) (as : List Nat) (B : Nat) : Prop :=
  ∀ a ∈ as, ∀ u, B ≤ u →
    (∀ c ∈ cell a (u + 1), ∀ l ∈ c, l.var ≤ u + 1) ∧ (∃ c ∈ cell a (u + 1), ∃ l ∈ c, l.var = u + 1)

theorem auxLoop_wp {C : Prop} (k : Nat) (cell : Nat → Nat → Cnf) (B : Nat) :
    ∀ (as : List Nat) (acc : Clause) (w : World) (Q : Clause → World → Prop),
      k < w.solvers.length → B ≤ w.nVarsOf k → CellOK cell as B →
      (∀ w' : World, w'.solvers.length = w.solvers.length →
          w'.nVarsOf k = w.nVarsOf k + as.length →
          w'.db k = (emitted cell as (w.nVarsOf k)).reverse ++ w.db k →
          Q (acc ++ auxLits as.length (w.nVarsOf k)) w') →
      wp C (auxLoop k cell as acc) w Q := by
  intro as
  induction as with
  | nil =>
    intro acc w Q _ _ _ h
    simp only [auxLoop, wp]
    have := h w rfl (by simp) (by simp [emitted])
    simpa [auxLits] using this
  | cons a rest ih =>
    intro acc w Q hk hB hcell h
    simp only [auxLoop, wp]
    rw [wp_addClauses_bind]
    have hN : (w.onNVars k).nVarsOf k = w.nVarsOf k := rfl
    have hk1 : k < (w.onNVars k).solvers.length := hk
    obtain ⟨hc1, c0, hc0, l0, hl0, hv0⟩ := hcell a List.mem_cons_self (w.nVarsOf k) hB
    have hle := nVarsOf_addAll_le k (w.nVarsOf k + 1) (cell a (w.nVarsOf k + 1)) (w.onNVars k) hk1 hc1
      (by rw [hN]; omega)
    have hge := (nVarsOf_addAll_ge k (cell a (w.nVarsOf k + 1)) (w.onNVars k) hk1).2 c0 hc0 l0 hl0
    have hnv : (addAll (w.onNVars k) k (cell a (w.nVarsOf k + 1))).nVarsOf k = w.nVarsOf k + 1 := by omega
    apply ih
    · simpa using hk
    · omega
    · intro a' ha'; exact hcell a' (List.mem_cons_of_mem _ ha')
    · intro w' hlen hnv' hdb
      have := h w' (by simpa using hlen) (by rw [hnv', hnv]; simp; omega)
        (by rw [hdb, hnv, db_addAll]; simp [emitted])
      rw [hnv]
      simpa [auxLits] using this

theorem mem_emitted (cell : Nat → Nat → Cnf) (c : Clause) : ∀ (as : List Nat) (N : Nat),
    c ∈ emitted cell as N ↔ ∃ j, ∃ h : j < as.length, c ∈ cell as[j] (N + 1 + j) := by
  intro as
  induction as with
  | nil => intro N; simp [emitted]
  | cons a rest ih =>
    intro N
    simp only [emitted, List.mem_append, ih]
    constructor
    · rintro (h | ⟨j, hj, h⟩)
      · exact ⟨0, by simp, by simpa using h⟩
      · refine ⟨j + 1, by simpa using hj, ?_⟩
        have e : N + 1 + (j + 1) = N + 1 + 1 + j := by omega
        simpa [e] using h
    · rintro ⟨j, hj, h⟩
      cases j with
      | zero => left; simpa using h
      | succ j =>
        right
        refine ⟨j, by simpa using hj, ?_⟩
        have e : N + 1 + (j + 1) = N + 1 + 1 + j := by omega
        simpa [e] using h

theorem mem_auxLits (l : Lit) : ∀ (m N : Nat), l ∈ auxLits m N ↔ ∃ j, j < m ∧ l = pl (N + 1 + j) := by
  intro m
  induction m with
  | zero => intro N; simp [auxLits]
  | succ m ih =>
    intro N
    simp only [auxLits, List.mem_cons, ih]
    constructor
    · rintro (h | ⟨j, hj, h⟩)
      · exact ⟨0, by omega, by simpa using h⟩
      · exact ⟨j + 1, by omega, by rw [h]; congr 1; omega⟩
    · rintro ⟨j, hj, h⟩
      cases j with
      | zero => left; simpa using h
      | succ j => right; exact ⟨j, by omega, by rw [h]; congr 1; omega⟩

/-! ## the outer loop -/

def range1 (n : Nat) : List Nat := (List.range n).map (· + 1)

/-- clauses emitted by the outer loop over `xs` started with `n_vars() = N` (emission order) -/
def rowsEmitted (n : Nat) (pre : Nat → Cnf) (head : Nat → Lit) (cell : Nat → Nat → Nat → Cnf) :
    List Nat → Nat → Cnf
  | [], _ => []
  | x :: rest, N =>
    pre x ++ emitted (cell x) (range1 n) N ++ [head x :: auxLits n N] ++
      rowsEmitted n pre head cell rest (N + n)

theorem rowLoop_wp {C : Prop} (k n : Nat) (pre : Nat → Cnf) (head : Nat → Lit)
    (cell : Nat → Nat → Nat → Cnf) (B : Nat) :
    ∀ (xs : List Nat) (w : World) (Q : Unit → World → Prop),
      k < w.solvers.length → B ≤ w.nVarsOf k →
      (∀ x ∈ xs, (∀ c ∈ pre x, ∀ l ∈ c, l.var ≤ B) ∧ (head x).var ≤ B ∧ CellOK (cell x) (range1 n) B) →
      (∀ w' : World, w'.solvers.length = w.solvers.length →
          w'.nVarsOf k = w.nVarsOf k + xs.length * n →
          w'.db k = (rowsEmitted n pre head cell xs (w.nVarsOf k)).reverse ++ w.db k →
          Q () w') →
      wp C (rowLoop k n pre head cell xs) w Q := by
  intro xs
  induction xs with
  | nil =>
    intro w Q _ _ _ h
    simp only [rowLoop, wp]
    exact h w rfl (by simp) (by simp [rowsEmitted])
  | cons x rest ih =>
    intro w Q hk hB hx h
    obtain ⟨hpre, hhead, hcell⟩ := hx x List.mem_cons_self
    simp only [rowLoop]
    rw [wp_addClauses_bind]
    -- the clauses emitted before the inner loop do not move `n_vars`
    have hnv0 : (addAll w k (pre x)).nVarsOf k = w.nVarsOf k := by
      have h1 := nVarsOf_addAll_le k (w.nVarsOf k) (pre x) w hk
        (fun c hc l hl => Nat.le_trans (hpre c hc l hl) hB) (Nat.le_refl _)
      have h2 := (nVarsOf_addAll_ge k (pre x) w hk).1
      omega
    rw [show ((auxLoop k (cell x) (List.map (fun x => x + 1) (List.range n)) [head x]).bind fun c =>
          Prog.clause k c (rowLoop k n pre head cell rest)) =
        ((auxLoop k (cell x) (range1 n) [head x]) >>= fun c =>
          Prog.clause k c (rowLoop k n pre head cell rest)) from rfl, wp_bind']
    apply auxLoop_wp k (cell x) B
    · simpa using hk
    · omega
    · exact hcell
    · intro w1 hlen1 hnv1 hdb1
      have hlenr : (range1 n).length = n := by simp [range1]
      rw [hlenr, hnv0] at hnv1
      rw [hnv0] at hdb1
      rw [hnv0, hlenr]
      simp only [wp]
      have hk1 : k < w1.solvers.length := by rw [hlen1]; simpa using hk
      have hlong : litsMax ([head x] ++ auxLits n (w.nVarsOf k)) ≤ w.nVarsOf k + n := by
        apply litsMax_le
        intro l hl
        rcases List.mem_append.1 hl with hl | hl
        · rw [List.mem_singleton.1 hl]; omega
        · obtain ⟨j, hj, rfl⟩ := (mem_auxLits l n _).1 hl
          simp [pl]; omega
      have hnv2 : (w1.onClause k ([head x] ++ auxLits n (w.nVarsOf k))).nVarsOf k = w.nVarsOf k + n := by
        rw [nVarsOf_onClause _ _ _ hk1, hnv1]; omega
      apply ih
      · simpa using hk1
      · omega
      · intro x' hx'; exact hx x' (List.mem_cons_of_mem _ hx')
      · intro w' hlen hnv' hdb
        apply h w'
        · rw [hlen]; simp [hlen1]
        · rw [hnv', hnv2]; simp [Nat.succ_mul]; omega
        · rw [hdb, hnv2, db_onClause_same, hdb1, db_addAll]
          simp [rowsEmitted]

theorem mem_rowsEmitted (n : Nat) (pre : Nat → Cnf) (head : Nat → Lit) (cell : Nat → Nat → Nat → Cnf)
    (c : Clause) : ∀ (xs : List Nat) (N : Nat),
    c ∈ rowsEmitted n pre head cell xs N ↔
      ∃ i, ∃ h : i < xs.length, c ∈ pre xs[i] ∨ c ∈ emitted (cell xs[i]) (range1 n) (N + i * n) ∨
        c = head xs[i] :: auxLits n (N + i * n) := by
  intro xs
  induction xs with
  | nil => intro N; simp [rowsEmitted]
  | cons x rest ih =>
    intro N
    simp only [rowsEmitted, List.mem_append, List.mem_singleton, ih]
    constructor
    · rintro (((h | h) | h) | ⟨i, hi, h⟩)
      · exact ⟨0, by simp, Or.inl (by simpa using h)⟩
      · exact ⟨0, by simp, Or.inr (Or.inl (by simpa using h))⟩
      · exact ⟨0, by simp, Or.inr (Or.inr (by simpa using h))⟩
      · refine ⟨i + 1, by simpa using hi, ?_⟩
        have e : N + (i + 1) * n = N + n + i * n := by rw [Nat.succ_mul]; omega
        simpa [e] using h
    · rintro ⟨i, hi, h⟩
      cases i with
      | zero =>
        left
        rcases h with h | h | h
        · left; left; simpa using h
        · left; right; simpa using h
        · right; simpa using h
      | succ i =>
        right
        refine ⟨i, by simpa using hi, ?_⟩
        have e : N + (i + 1) * n = N + n + i * n := by rw [Nat.succ_mul]; omega
        simpa [e] using h

end Crusta.DynAtt
