/-!
# CNF vocabulary shared by the encoder and solver models (import-free)

A literal is a structure (variable, polarity) rather than a signed integer: rendered to a signed
integer only in the driver.
-/

namespace Crusta

structure Lit where
  var : Nat
  pos : Bool
deriving DecidableEq, Repr, Inhabited

def Lit.neg (l : Lit) : Lit := ⟨l.var, !l.pos⟩

def pl (v : Nat) : Lit := ⟨v, true⟩
def nl (v : Nat) : Lit := ⟨v, false⟩

abbrev Clause := List Lit
abbrev Cnf := List Clause
abbrev Asg := Nat → Bool

def litTrue (ν : Asg) (l : Lit) : Bool := if l.pos then ν l.var else !(ν l.var)
def clauseTrue (ν : Asg) (c : Clause) : Bool := c.any (litTrue ν)
def cnfTrue (ν : Asg) (f : Cnf) : Bool := f.all (clauseTrue ν)

/-- the assignment function represented by a model vector (`Some(true)` = true) -/
def asgOfModel (m : List (Option Bool)) : Asg := fun v => v ≥ 1 && (m.getD (v - 1) none == some true)

def Lit.toInt (l : Lit) : Int := if l.pos then (l.var : Int) else -(l.var : Int)

def Clause.maxVar (c : Clause) : Nat := c.foldl (fun m l => max m l.var) 0
def Cnf.maxVar (f : Cnf) : Nat := f.foldl (fun m c => max m (Clause.maxVar c)) 0

end Crusta
