import Crusta.Proofs.GSem
import Crusta.Model.Graph

/-!
# What the graph algorithms are supposed to compute (statements only)

`FwView.Ok v g`: the view handed to the algorithms (`Store.view`, `AF.view`) presents the graph `g`.
`G.Grounded`: the least complete extension.  `GoodComp`: an extracted component is a union of
weakly connected components of `g` with its sub-framework renumbered by position.
The algorithm proofs are in `GroundedAlg.lean` and `CompAlg.lean`.
-/

namespace Crusta

def G.Grounded (g : G) (S : ASet) : Prop := g.Complete S ∧ ∀ T, g.Complete T → SubsetS S T

/-- the view presents the graph: live list, liveness test, id bound, attack rows (with consistent
multiplicities in both directions) -/
structure FwView.Ok (v : FwView) (g : G) : Prop where
  wf : g.WF
  maxId_ge : ∀ a, g.live a = true → ∃ m, v.maxId = some m ∧ a ≤ m
  isLive : ∀ a, v.isLive a = g.live a
  live_mem : ∀ a, a ∈ v.live ↔ g.live a = true
  live_nodup : v.live.Nodup
  attFrom_mem : ∀ a b, b ∈ v.attFrom a ↔ g.att a b
  attTo_mem : ∀ a b, b ∈ v.attTo a ↔ g.att b a
  count : ∀ a b, (v.attFrom a).count b = (v.attTo b).count a
  allAtts_mem : ∀ a b, (a, b) ∈ v.allAtts ↔ g.att a b

/-- the extracted component `c` is the sub-framework of `g` on `c.ids`, which no attack leaves or
enters, renumbered by position -/
structure GoodComp (g : G) (c : Comp) : Prop where
  nodup : c.ids.Nodup
  live : ∀ a ∈ c.ids, g.live a = true
  closed : ∀ a b, g.att a b → (a ∈ c.ids ↔ b ∈ c.ids)
  n_eq : c.af.n = c.ids.length
  atts : ∀ i j, (i, j) ∈ c.af.atts ↔ ∃ a b, c.ids[i]? = some a ∧ c.ids[j]? = some b ∧ g.att a b

end Crusta
