#!/usr/bin/env python3
"""Differential validation of the Lean model Crusta.DynAtt against the Rust solvers (co_att, st_att)."""
import sys, random, subprocess, collections
sys.path.insert(0, '/verif/tools')
from props_dyn import gen_history, impl_stream, model_stream, FACTORS

VH = '/verif/harness/target/release/vh'
DRV = '/tmp/lw/att/.lake/build/bin/driver'

def blocks(text):
    out = {}
    cur = None
    for l in text.split('\n'):
        if l.startswith('case '):
            cur = l.split(' ')[1]
            out[cur] = []
        elif l == 'end':
            cur = None
        elif cur is not None:
            out[cur].append(l)
    return out

def main():
    seed = int(sys.argv[1]) if len(sys.argv) > 1 else 1
    per = int(sys.argv[2]) if len(sys.argv) > 2 else 3000
    rng = random.Random(seed)
    cases = []
    for kind in ("co_att", "st_att"):
        for i in range(per):
            bad = 0.0 if i % 2 == 0 else 0.15
            toks = gen_history(rng, kind, rng.randint(5, 60), bad)
            f = FACTORS[i % 4] if i < 8 else rng.choice(FACTORS)
            cases.append("dyn %s%d kind=%s factor=%s trace=1 hist=%s" % (kind[:2], i, kind, f, ";".join(toks)))
    inp = "\n".join(cases) + "\n"
    ho = subprocess.run([VH], input=inp, capture_output=True, text=True).stdout
    open('/tmp/lw/att_work/last_harness.out', 'w').write(ho)
    do = subprocess.run([DRV], input=ho, capture_output=True, text=True).stdout
    hb, db = blocks(ho), blocks(do)
    stats = collections.Counter()
    mism = []
    for c in cases:
        cid = c.split(' ')[1]
        kind = [t for t in c.split(' ') if t.startswith('kind=')][0][5:]
        impl, model = hb.get(cid, []), db.get(cid, [])
        a = impl_stream(impl)
        b, stopped = model_stream(model)
        stats[kind + ' cases'] += 1
        if stopped:
            stats[kind + ' stopped'] += 1
            a = a[:len(b)]
        stats[kind + ' events'] += len(b)
        stats[kind + ' sat_events'] += len([x for x in model if x.startswith('T ')])
        stats[kind + ' queries'] += len([x for x in model if x.startswith('mQ ')])
        stats[kind + ' new_solvers'] += len([x for x in model if x.startswith('T S') and x.endswith(' new')])
        for i, x in enumerate(model):
            if x.startswith('mQ ') and i + 1 < len(model) and model[i + 1].startswith('mans ACC'):
                stats[kind + ' cache_hits'] += 1
        for x in impl:
            if x.startswith('panic') or (x.startswith('U ') and x.split(' ')[2] == 'panic'):
                stats[kind + ' impl_panics'] += 1
            if x.startswith('U '):
                t = x.split(' ')
                if t[2] != t[3].split('=')[1]:
                    stats[kind + ' update_result_unexpected'] += 1
        for x in model:
            if x.startswith('verdict BAD') or x.startswith('verdict PANIC'):
                stats[kind + ' ' + x.split(' ')[1]] += 1
                if len(mism) < 20:
                    print("VERDICT", x, "\n   ", c)
        if a != b:
            i = 0
            while i < min(len(a), len(b)) and a[i] == b[i]:
                i += 1
            mism.append((c, i, a[max(0, i - 3):i + 3], b[max(0, i - 3):i + 3]))
            stats[kind + ' MISMATCH'] += 1
    for k in sorted(stats):
        print("%-32s %d" % (k, stats[k]))
    print("total cases %d, events compared %d, mismatches %d" % (
        len(cases), sum(v for k, v in stats.items() if k.endswith(' events')), len(mism)))
    for m in mism[:5]:
        print("MISMATCH", m[0]); print("  at", m[1]); print("  impl ", m[2]); print("  model", m[3])

if __name__ == "__main__":
    main()
