import Crusta.Proofs.SolveCalls
import Crusta.Proofs.SolveID

/-!
# C18 on the `Prog` models, ideal semantics: termination and SAT-call bound on one component

The enumeration of the preferred extensions makes at most `|CO| + |PR|` calls (as the skeptical
preferred search, without discards); the second computer (kind `.ideal`) grows a chain of pairwise
different complete sets from the grounded extension: at most `|CO|` calls.
-/

namespace Crusta
open Prog (mkSolver doReserve addClause addClauses getNVars doSolve)

/-! ## the enumeration loop -/

/-- the states in which the enumeration loop starts an iteration, blocked list explicit -/
def ELB (m : MEC) (w : World) (blocked found : List (List Nat)) : Prop :=
  m.kind = .preferred ∧
  ((m.state = .init ∧ MInv m w [] ∧ blocked = [] ∧ found = []) ∨
   (m.state = .intermediate ∧ EnInv m w blocked found) ∨
   (m.state = .maximal ∧ EnInv m w blocked found ∧ m.cur ∈ found))

def ENextB (af : AF) (m' : MEC) (w' : World) (seen found : List (List Nat)) : Prop :=
  m'.af = af ∧ m'.kind = .preferred ∧
  (m'.state = .none ∨
   (∃ blocked' seen', m'.state = .intermediate ∧ EnInv m' w' blocked' found ∧
      CInv af .intermediate m'.cur blocked' seen' found ∧ seen'.length = seen.length + 1) ∨
   (∃ blocked', m'.state = .maximal ∧ EnInv m' w' blocked' found ∧
      CInv af .maximal m'.cur blocked' seen (m'.cur :: found)))

theorem wp_next_en_cnt {m : MEC} {w : World} {blocked seen found : List (List Nat)}
    (h : ELB m w blocked found) (hgr : GrOK m.af) (hnd : (groundedV m.af.view).Nodup)
    (hc : CInv m.af m.state m.cur blocked seen found) (hinit : m.state = .init → seen = []) :
    wp False m.computeNext w (fun m' w' => ENextB m.af m' w' seen found ∧
      w'.calls ≤ w.calls + 1 ∧ (m.state = .init → w'.calls = w.calls) ∧
      (m.state ≠ .init → w'.calls = w.calls + 1)) := by
  refine wp_andT _ _ (fun m' w' => ENextB m.af m' w' seen found) _ ?_ (wp_computeNext_calls m w)
  obtain ⟨hk, hcase⟩ := h
  rcases hcase with ⟨hst, hM, hbl, hfd⟩ | ⟨hst, hS⟩ | ⟨hst, hS, hcur⟩
  · -- init
    unfold MEC.computeNext
    rw [hst]
    have hs := hinit hst
    subst hs; subst hfd; subst hbl
    refine ⟨rfl, hk, Or.inr (Or.inl ⟨[], [groundedV m.af.view], rfl,
      ⟨hM.congr_m rfl rfl rfl rfl rfl, hk, hgr.2.1, hnd, hgr.1, ?_, ?_⟩, CInv.init hgr.1, rfl⟩)⟩
    · intro B hB; cases hB
    · intro B hB; cases hB
  · -- intermediate: increase
    rw [hst] at hc
    refine wp_mono _ _ _ _ ?_ (wp_andT _ _ _ _ (wp_increase_en (C := False) hS hst)
      (wp_increase_fresh (C := True) hS.minv hk hst))
    rintro m' w' ⟨⟨haf, _, _, _, hkk, hcase⟩, hfresh⟩
    have hk' : m'.kind = .preferred := by rw [hkk]; exact hk
    rcases hcase with ⟨hst', hS'⟩ | ⟨hst', hS', hpref⟩
    · refine ⟨haf, hk', Or.inr (Or.inl ⟨m.cur :: blocked, m'.cur :: seen, hst', hS', ?_, rfl⟩)⟩
      refine hc.push_seen (m.cur :: blocked) m'.cur (fun e he => List.mem_cons_of_mem _ he)
        (fun _ => List.mem_cons_self) ?_ (hfresh.1 hst')
      rw [← haf]; exact hS'.cur_co
    · refine ⟨haf, hk', Or.inr (Or.inr ⟨m.cur :: blocked, hst', hS', ?_⟩)⟩
      have hcur := hfresh.2 hst'
      rw [hcur] at hpref ⊢
      exact hc.push_found hpref
  · -- maximal: block, then a new search
    unfold MEC.computeNext
    rw [hst]
    simp only [Prog.bind_eq, blockAndAssume_pref hk]
    rw [wp_bind, wp_addClause1]
    have htop : ∀ B ∈ m.cur :: blocked, ∃ F ∈ found, ∀ a ∈ B, a ∈ F := by
      intro B hB
      rcases List.mem_cons.1 hB with rfl | hB
      · exact ⟨_, hcur, fun a ha => ha⟩
      · rcases hS.top B hB with h1 | h2
        · exact h1
        · exact ⟨_, hcur, h2⟩
    refine wp_mono _ _ _ _ ?_ (wp_andT _ _ _ _
      (wp_newSearch_en (C := False) (hS.minv.block m.cur) hk hc.found_pr htop)
      (wp_newSearch_fresh (C := True) (hS.minv.block m.cur)))
    rintro m' w' ⟨⟨haf, _, _, _, hkk, hcase⟩, hfresh⟩
    have hk' : m'.kind = .preferred := by rw [hkk]; exact hk
    rcases hcase with ⟨hst', hS'⟩ | ⟨hst', _, _⟩
    · refine ⟨haf, hk', Or.inr (Or.inl ⟨m.cur :: blocked, m'.cur :: seen, hst', hS', ?_, rfl⟩)⟩
      refine hc.push_seen (m.cur :: blocked) m'.cur (fun e he => List.mem_cons_of_mem _ he)
        (fun _ => List.mem_cons_self) ?_ (hfresh hst')
      rw [← haf]; exact hS'.cur_co
    · exact ⟨haf, hk', Or.inl hst'⟩

/-- **the enumeration loop terminates** within `|CO| + |PR|` calls -/
theorem idEnumLoop_calls (grLen c0 : Nat) : ∀ (fuel : Nat) (m : MEC) (w : World)
    (blocked seen found : List (List Nat)) (ia : InAll), ELB m w blocked found → GrOK m.af →
    (groundedV m.af.view).Nodup →
    CInv m.af m.state m.cur blocked seen found → (m.state = .init → seen = []) →
    w.calls + 1 ≤ c0 + seen.length + found.length + (if m.state = .init then 1 else 0) →
    fuel + seen.length + found.length ≥ (extsCO m.af).length + (extsPR m.af).length + 1 →
    wp False (idEnumLoop grLen fuel m ia) w
      (fun _ w' => w'.calls ≤ c0 + (extsCO m.af).length + (extsPR m.af).length)
  | 0, m, _, _, _, _, _, _, _, _, hc, _, _, hf => by
    have := hc.seen_le; have := hc.found_le; omega
  | fuel + 1, m, w, blocked, seen, found, ia, h, hgr, hnd, hc, hinit, hcalls, hf => by
    unfold idEnumLoop
    simp only [Prog.bind_eq]
    rw [wp_bind]
    refine wp_mono _ _ _ _ ?_ (wp_next_en_cnt h hgr hnd hc hinit)
    rintro m' w' ⟨⟨haf, hk', hcase⟩, hc1, hc0, _⟩
    have hsl := hc.seen_le
    have hfl := hc.found_le
    have hcalls' : w'.calls ≤ c0 + seen.length + found.length := by
      by_cases hi : m.state = .init
      · rw [if_pos hi] at hcalls; have := hc0 hi; omega
      · rw [if_neg hi] at hcalls; omega
    have hgr' : GrOK m'.af := by rw [haf]; exact hgr
    have hnd' : (groundedV m'.af.view).Nodup := by rw [haf]; exact hnd
    rcases hcase with hst | ⟨blocked', seen', hst, hS, hc', hlen⟩ | ⟨blocked', hst, hS, hc'⟩
    · -- none
      rw [hst]
      simp only
      rw [wp_bind, wp_drop]
      show (w'.onClause m'.sid [pl m'.sel]).calls ≤ _
      simp only [World.onClause_calls]
      omega
    · -- intermediate
      rw [hst]
      simp only
      have hL : ELB m' w' blocked' found := ⟨hk', Or.inr (Or.inl ⟨hst, hS⟩)⟩
      have hcc : CInv m'.af m'.state m'.cur blocked' seen' found := by rw [haf, hst]; exact hc'
      have := idEnumLoop_calls grLen c0 fuel m' w' blocked' seen' found ia hL hgr' hnd' hcc
        (fun hh => by rw [hst] at hh; cases hh)
        (by rw [if_neg (by rw [hst]; intro hh; cases hh)]; omega) (by rw [haf]; omega)
      refine wp_mono _ _ _ _ ?_ this
      intro _ w'' hh
      rw [← haf]; exact hh
    · -- maximal: one more preferred extension
      rw [hst]
      simp only
      have hL : ELB m' w' blocked' (m'.cur :: found) :=
        ⟨hk', Or.inr (Or.inr ⟨hst, hS.mono _, List.mem_cons_self⟩)⟩
      have hcc : CInv m'.af m'.state m'.cur blocked' seen (m'.cur :: found) := by rw [haf, hst]; exact hc'
      have hfl' := hc'.found_le
      simp only [List.length_cons] at hfl'
      have hrec : ∀ ia', wp False (idEnumLoop grLen fuel m' ia') w'
          (fun _ w' => w'.calls ≤ c0 + (extsCO m.af).length + (extsPR m.af).length) := by
        intro ia'
        have := idEnumLoop_calls grLen c0 fuel m' w' blocked' seen (m'.cur :: found) ia' hL hgr' hnd' hcc
          (fun hh => by rw [hst] at hh; cases hh)
          (by rw [if_neg (by rw [hst]; intro hh; cases hh)]; simp only [List.length_cons]; omega)
          (by rw [haf]; simp only [List.length_cons]; omega)
        refine wp_mono _ _ _ _ ?_ this
        intro _ w'' hh
        rw [← haf]; exact hh
      split
      · exact hrec _
      · rw [wp_bind, wp_drop]
        show (w'.onClause m'.sid [pl m'.sel]).calls ≤ _
        simp only [World.onClause_calls]
        omega

/-- the first phase: enumeration of the preferred extensions on the solver `s` -/
theorem idInAll_calls (cfg : Cfg) (hk : ∀ af T, cfg.enc.Base af T ↔ Complete af T) (c : Comp)
    (hwf : c.af.WF) (hgr : GrOK c.af) (grLen : Nat) (w : World) (s : Nat) (hb : w.Bounded)
    (hs : s < w.solvers.length) (hdb : w.db s = [])
    (hfuel : cfg.fuel ≥ (extsCO c.af).length + (extsPR c.af).length + 1) :
    wp False (idInAll cfg c grLen s) w
      (fun _ w' => w'.calls ≤ w.calls + (extsCO c.af).length + (extsPR c.af).length) := by
  unfold idInAll
  simp only [Prog.bind_eq]
  rw [wp_bind]
  refine wp_mono _ _ _ _ ?_ (wp_andT _ _ _ _
    (wp_encodeInto (C := False) cfg.enc c.af s false w hb hs hdb
      (fun _ w' => Encoded cfg.enc c.af s false w') (fun w' h _ => h))
    (wp_encodeInto_calls cfg.enc c.af s false w))
  rintro _ w1 ⟨henc, hc1⟩
  rw [wp_bind]
  refine wp_mono _ _ _ _ ?_ (wp_andT _ _ _ _ (wp_MEC_new (C := False) henc hwf (hk _) .preferred)
    (wp_MEC_new_calls c.af cfg.enc s .preferred w1))
  rintro m w2 ⟨⟨hM, haf, _, _, hkind, hst, _, _⟩, hc2⟩
  have hnd : (groundedV c.af.view).Nodup := (groundedV_spec _ _ (AF.view_ok c.af hwf)).2.1
  have hL : ELB m w2 [] [] := ⟨hkind, Or.inl ⟨hst, hM, rfl, rfl⟩⟩
  have hC : CInv m.af m.state m.cur [] [] [] :=
    ⟨fun e he => (by cases he), List.Pairwise.nil, fun e he => (by cases he), List.Pairwise.nil,
     fun e he => (by cases he), fun e he => (by cases he), fun _ E hE => (by cases hE)⟩
  have h1 : w1.calls = w.calls := hc1
  have h2 : w2.calls = w1.calls := hc2
  have := idEnumLoop_calls grLen w.calls cfg.fuel m w2 [] [] [] ⟨List.replicate c.af.n true, 0, 0⟩ hL
    (by rw [haf]; exact hgr) (by rw [haf]; exact hnd) hC (fun _ => rfl)
    (by rw [if_pos hst]; simp only [List.length_nil]; omega)
    (by rw [haf]; simp only [List.length_nil]; omega)
  rw [haf] at this
  exact this

/-! ## the second computer -/

theorem wp_increaseD_fresh {C : Prop} {m : MEC} {w : World} {blocked : List (List Nat)} {dead : Nat}
    {forb : List Lit} (h : MInvD m w blocked dead) (hk : m.kind = .ideal forb) (hst : m.state = .intermediate) :
    wp C m.computeNext w (fun m' w' => MInvD m' w' (m.cur :: blocked) dead ∧
      (m'.state = .intermediate → ∀ E ∈ m.cur :: blocked, ¬ SubL (ofList m'.cur) E) ∧
      (m'.state = .maximal → m'.cur = m.cur)) := by
  unfold MEC.computeNext
  rw [hst]
  simp only [Prog.bind_eq, blockAndAssume_ideal hk]
  rw [wp_bind, wp_addClause1, wp_bind]
  have hM := h.block m.cur
  apply wp_MEC_solveD hM m.cur forb
  · intro mdl w' hM' _ _ hblk _
    exact ⟨hM'.congr_m rfl rfl rfl rfl rfl, fun _ => hblk, fun hmax => (by cases hmax)⟩
  · intro w' hM' _
    exact ⟨hM'.congr_m rfl rfl rfl rfl rfl, fun hmax => (by cases hmax), fun _ => rfl⟩

/-- **`compute_maximal` of the ideal computer terminates** within `|CO|` calls (counted from `c1`, the
calls made when the computer was created) -/
theorem computeMaximalD_calls (dead : Nat) (inAll : List Bool) (c1 : Nat) : ∀ (fuel : Nat) (m : MEC) (w : World)
    (blockedG blocked seen : List (List Nat)), GrowD m w blockedG dead inAll → MInvD m w blocked dead →
    CInv m.af m.state m.cur blocked seen [] →
    w.calls + (if m.state = .maximal then 0 else 1) ≤ c1 + seen.length →
    fuel + seen.length ≥ (extsCO m.af).length + 1 + (if m.state = .maximal then 0 else 1) →
    wp False (MEC.computeMaximal fuel m) w (fun _ w' => w'.calls ≤ c1 + (extsCO m.af).length)
  | 0, m, _, _, _, _, _, _, hc, _, hf => by
    have := hc.seen_le; split at hf <;> omega
  | fuel + 1, m, w, blockedG, blocked, seen, hG, hM, hc, hcalls, hf => by
    have hsl := hc.seen_le
    unfold MEC.computeMaximal
    by_cases hmax : m.state = .maximal
    · simp only [hmax, beq_self_eq_true, if_true, Prog.bind_eq]
      rw [wp_bind]
      show (w.onClause m.sid [pl m.sel]).calls ≤ _
      rw [if_pos hmax] at hcalls
      simp only [World.onClause_calls]
      omega
    · have hst : m.state = .intermediate := hG.st.resolve_right hmax
      have hne : (m.state == MState.maximal) = false := by rw [hst]; rfl
      simp only [hne, Bool.false_eq_true, if_false, Prog.bind_eq]
      rw [wp_bind]
      rw [if_neg hmax] at hcalls hf
      rw [hst] at hc
      refine wp_mono _ _ _ _ ?_ (wp_andT _ _ _ _ (wp_andT _ _ _ _ (wp_increaseD (C := False) hG hst)
        (wp_increaseD_fresh (C := True) hM hG.kind hst)) (wp_computeNext_calls m w))
      rintro m' w' ⟨⟨⟨blockedG', hG', haf, _⟩, hM', hfresh, hcur⟩, hc1, _, _⟩
      by_cases hmax' : m'.state = .maximal
      · have hcc : CInv m'.af m'.state m'.cur (m.cur :: blocked) seen [] := by
          rw [haf, hmax', hcur hmax']
          exact hc.block_cur .maximal (by intro hh; cases hh)
        have := computeMaximalD_calls dead inAll c1 fuel m' w' blockedG' (m.cur :: blocked) seen hG' hM' hcc
          (by rw [if_pos hmax']; omega) (by rw [if_pos hmax', haf]; omega)
        rw [haf] at this
        exact this
      · have hst' : m'.state = .intermediate := hG'.st.resolve_right hmax'
        have hcc : CInv m'.af m'.state m'.cur (m.cur :: blocked) (m'.cur :: seen) [] := by
          rw [haf, hst']
          refine hc.push_seen (m.cur :: blocked) m'.cur (fun e he => List.mem_cons_of_mem _ he)
            (fun _ => List.mem_cons_self) ?_ (hfresh hst')
          rw [← haf]; exact hG'.cur_co
        have := computeMaximalD_calls dead inAll c1 fuel m' w' blockedG' (m.cur :: blocked) (m'.cur :: seen)
          hG' hM' hcc
          (by rw [if_neg hmax']; simp only [List.length_cons]; omega)
          (by rw [if_neg hmax', haf]; simp only [List.length_cons]; omega)
        rw [haf] at this
        exact this

theorem computeMaximalD_init_calls (dead : Nat) (inAll : List Bool) (fuel : Nat) (m : MEC) (w : World)
    (h : MInvD m w [] dead) (hk : m.kind = .ideal (forbL m.enc m.af.n inAll)) (hst : m.state = .init)
    (hgr : GrOK m.af) (hgin : ∀ a ∈ groundedV m.af.view, inAll.getD a false = true)
    (hf : fuel ≥ (extsCO m.af).length + 2) :
    wp False (MEC.computeMaximal fuel m) w (fun _ w' => w'.calls ≤ w.calls + (extsCO m.af).length) := by
  cases fuel with
  | zero => omega
  | succ fuel =>
    unfold MEC.computeMaximal
    have hne : (m.state == MState.maximal) = false := by rw [hst]; rfl
    simp only [hne, Bool.false_eq_true, if_false, Prog.bind_eq]
    rw [wp_bind]
    unfold MEC.computeNext
    rw [hst]
    show wp False (MEC.computeMaximal fuel { m with cur := groundedV m.af.view, state := .intermediate }) w _
    have hM' : MInvD { m with cur := groundedV m.af.view, state := .intermediate } w [] dead :=
      h.congr_m rfl rfl rfl rfl rfl
    have hG : GrowD { m with cur := groundedV m.af.view, state := .intermediate } w [] dead inAll :=
      ⟨hM', hk, Or.inl rfl, hgr.2.1, hgr.1, hgin, (fun B hB => by cases hB), (fun hh => by cases hh)⟩
    exact computeMaximalD_calls dead inAll w.calls fuel _ w [] [] [groundedV m.af.view] hG hM'
      (CInv.init hgr.1)
      (by rw [if_neg (by intro hh; cases hh)]; simp only [List.length_singleton]; omega)
      (by rw [if_neg (by intro hh; cases hh)]; simp only [List.length_singleton]
          show fuel + 1 ≥ (extsCO m.af).length + 1 + 1
          omega)

/-- the second phase: at most `|CO|` calls -/
theorem idFinish_calls (cfg : Cfg) (hk : ∀ af T, cfg.enc.Base af T ↔ Complete af T) (c : Comp)
    (hwf : c.af.WF) (hgr : GrOK c.af) (s dead : Nat) (ia : InAll) (w : World) (hb : w.Bounded)
    (hs : s < w.solvers.length) (hpost : EnumPost c.af ia) (hd : Dropped cfg.enc c.af s dead w)
    (hfuel : cfg.fuel ≥ (extsCO c.af).length + 2) :
    wp False (idFinish cfg c s (groundedV c.af.view) ia) w
      (fun _ w' => w'.calls ≤ w.calls + (extsCO c.af).length) := by
  unfold idFinish
  split
  · exact Nat.le_add_right _ _
  · split
    · exact Nat.le_add_right _ _
    · simp only [Prog.bind_eq]
      rw [wp_bind]
      refine wp_mono _ _ _ _ ?_ (wp_andT _ _ _ _
        (wp_MEC_newD (C := False) hd hwf (hk _) hb hs (.ideal (forbL cfg.enc c.af.n ia.inAll)))
        (wp_MEC_new_calls c.af cfg.enc s (.ideal (forbL cfg.enc c.af.n ia.inAll)) w))
      rintro m w2 ⟨⟨hM, haf, henc, hkind, hst⟩, hc2⟩
      have hgin : ∀ a ∈ groundedV c.af.view, ia.inAll.getD a false = true := by
        intro a ha
        apply hpost.sup
        intro P hP
        exact hgr.2.2 P (preferred_complete hP) a ((ofList_mem _ a).2 ha)
      have := computeMaximalD_init_calls dead ia.inAll cfg.fuel m w2 hM
        (by rw [hkind, haf, henc]) hst (by rw [haf]; exact hgr) (by rw [haf]; exact hgin)
        (by rw [haf]; exact hfuel)
      rw [haf] at this
      refine wp_mono _ _ _ _ ?_ this
      intro _ w3 hw3
      have h2 : w2.calls = w.calls := hc2
      have h3 : w3.calls ≤ w2.calls + (extsCO c.af).length := hw3
      show w3.calls ≤ w.calls + (extsCO c.af).length
      omega

/-! ## the two entry points on one component -/

/-- **SE-ID on one component terminates** with fuel `|CO| + |PR| + 2` **within `2|CO| + |PR|` SAT
calls** -/
theorem idOneForCc_calls (cfg : Cfg) (hk : ∀ af T, cfg.enc.Base af T ↔ Complete af T) (c : Comp)
    (hwf : c.af.WF) (hgr : GrOK c.af) (w : World) (hb : w.Bounded)
    (hfuel : cfg.fuel ≥ (extsCO c.af).length + (extsPR c.af).length + 2) :
    wp False (idOneForCc cfg c) w
      (fun _ w' => w'.calls ≤ w.calls + 2 * (extsCO c.af).length + (extsPR c.af).length) := by
  unfold idOneForCc
  simp only [Prog.bind_eq]
  rw [wp_bind, wp_mkSolver, wp_bind]
  have hlen : w.solvers.length < w.onNew.solvers.length := by simp [World.onNew]
  refine wp_mono _ _ _ _ ?_ (wp_andT _ _ _ _
    (idInAll_calls cfg hk c hwf hgr _ w.onNew w.solvers.length (Bounded_onNew hb) hlen (db_onNew_self w)
      (by omega))
    (wp_idInAll cfg hk c hwf hgr w.onNew w.solvers.length (Bounded_onNew hb) hlen (db_onNew_self w)))
  rintro ia w1 ⟨hc1, hb1, hs1, hpost, dead, hd⟩
  refine wp_mono _ _ _ _ ?_ (idFinish_calls cfg hk c hwf hgr _ dead ia w1 hb1 hs1 hpost hd (by omega))
  intro _ w2 hw2
  have h1 : w1.calls ≤ w.onNew.calls + (extsCO c.af).length + (extsPR c.af).length := hc1
  have h2 : w2.calls ≤ w1.calls + (extsCO c.af).length := hw2
  simp only [World.onNew_calls] at h1
  show w2.calls ≤ w.calls + 2 * (extsCO c.af).length + (extsPR c.af).length
  omega

/-- **DC-ID on one component terminates** with fuel `|CO| + |PR| + 2` **within `2|CO| + |PR|` SAT
calls** -/
theorem idCredForCc_calls (cfg : Cfg) (hk : ∀ af T, cfg.enc.Base af T ↔ Complete af T) (c : Comp)
    (pos : List Nat) (hwf : c.af.WF) (hgr : GrOK c.af) (w : World) (hb : w.Bounded)
    (hfuel : cfg.fuel ≥ (extsCO c.af).length + (extsPR c.af).length + 2) :
    wp False (idCredForCc cfg c pos) w
      (fun _ w' => w'.calls ≤ w.calls + 2 * (extsCO c.af).length + (extsPR c.af).length) := by
  unfold idCredForCc
  simp only [Prog.bind_eq]
  rw [wp_bind, wp_mkSolver, wp_bind]
  have hlen : w.solvers.length < w.onNew.solvers.length := by simp [World.onNew]
  refine wp_mono _ _ _ _ ?_ (wp_andT _ _ _ _
    (idInAll_calls cfg hk c hwf hgr _ w.onNew w.solvers.length (Bounded_onNew hb) hlen (db_onNew_self w)
      (by omega))
    (wp_idInAll cfg hk c hwf hgr w.onNew w.solvers.length (Bounded_onNew hb) hlen (db_onNew_self w)))
  rintro ia w1 ⟨hc1, hb1, hs1, hpost, dead, hd⟩
  have h1 : w1.calls ≤ w.onNew.calls + (extsCO c.af).length + (extsPR c.af).length := hc1
  simp only [World.onNew_calls] at h1
  split
  · show w1.calls ≤ w.calls + 2 * (extsCO c.af).length + (extsPR c.af).length
    omega
  · rw [wp_bind]
    refine wp_mono _ _ _ _ ?_ (idFinish_calls cfg hk c hwf hgr _ dead ia w1 hb1 hs1 hpost hd (by omega))
    intro ext w2 hw2
    have h2 : w2.calls ≤ w1.calls + (extsCO c.af).length := hw2
    split
    · show w2.calls ≤ w.calls + 2 * (extsCO c.af).length + (extsPR c.af).length
      omega
    · show w2.calls ≤ w.calls + 2 * (extsCO c.af).length + (extsPR c.af).length
      omega

/-- the bound in the form of property C18, `2|base| + |PR| + 2` -/
theorem idOneForCc_calls_c18 (cfg : Cfg) (hk : ∀ af T, cfg.enc.Base af T ↔ Complete af T) (c : Comp)
    (hwf : c.af.WF) (hgr : GrOK c.af) (w : World) (hb : w.Bounded)
    (hfuel : cfg.fuel ≥ (extsCO c.af).length + (extsPR c.af).length + 2) :
    wp False (idOneForCc cfg c) w
      (fun _ w' => w'.calls ≤ w.calls + 2 * (extsCO c.af).length + (extsPR c.af).length + 2) := by
  refine wp_mono _ _ _ _ ?_ (idOneForCc_calls cfg hk c hwf hgr w hb hfuel)
  intro _ w' h
  have : w'.calls ≤ w.calls + 2 * (extsCO c.af).length + (extsPR c.af).length := h
  omega

theorem idCredForCc_calls_c18 (cfg : Cfg) (hk : ∀ af T, cfg.enc.Base af T ↔ Complete af T) (c : Comp)
    (pos : List Nat) (hwf : c.af.WF) (hgr : GrOK c.af) (w : World) (hb : w.Bounded)
    (hfuel : cfg.fuel ≥ (extsCO c.af).length + (extsPR c.af).length + 2) :
    wp False (idCredForCc cfg c pos) w
      (fun _ w' => w'.calls ≤ w.calls + 2 * (extsCO c.af).length + (extsPR c.af).length + 2) := by
  refine wp_mono _ _ _ _ ?_ (idCredForCc_calls cfg hk c pos hwf hgr w hb hfuel)
  intro _ w' h
  have : w'.calls ≤ w.calls + 2 * (extsCO c.af).length + (extsPR c.af).length := h
  omega

end Crusta
