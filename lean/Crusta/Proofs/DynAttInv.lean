import Crusta.Proofs.DynAttSem
import Crusta.Proofs.GroundedAlg

/-!
# The invariant of the attack-assumption encoder and what it means

`AInv st e Γ` relates the solver's framework `st`, the encoder tables `e` and the clause database
`Γ` of the SAT solver currently held in the shared cell: `Γ` consists of the clauses of the last
re-encoding (`EncSpec`) and of unit clauses forcing to true variables that are not (or no longer)
argument variables; the live arguments have pairwise distinct variables among `1..n_arg_vars`.

Under the invariant `assumptions(af)` never panics (`assumptions_total`), and the models of `Γ`
under these assumptions are, on the argument variables, exactly the stable (`models_stable`,
`stable_model`) resp. complete (`models_complete`, `complete_model`) extensions of `st`.
-/

namespace Crusta.DynAtt
open Crusta Crusta.Dyn

def AEnc.av (e : AEnc) (i : Nat) : Option Nat := e.argVar.getD i none
def AEnc.ty (e : AEnc) (v : Nat) : AVarType := e.vars.getD v .ignored
/-- variable of an argument (0 when it has none) -/
def AEnc.xv (e : AEnc) (i : Nat) : Nat := (e.av i).getD 0

structure AInv (st : Store) (e : AEnc) (Γ : Cnf) : Prop where
  enc_in : ∀ c, EncSpec e.sem e.nArgVars c → c ∈ Γ
  db_kind : ∀ c ∈ Γ, EncSpec e.sem e.nArgVars c ∨
      ∃ v, c = [pl v] ∧ 1 ≤ v ∧ v ≤ e.nArgVars ∧ ∀ a, e.ty v ≠ .arg a
  av_live : ∀ i, st.hasId i = true → ∃ v, e.av i = some v ∧ 1 ≤ v ∧ v ≤ e.nArgVars ∧ e.ty v = .arg i
  ty_arg : ∀ v i, e.ty v = .arg i → st.hasId i = true ∧ e.av i = some v
  /-- bookkeeping needed to preserve the invariant: the variables from `next_dummy_arg_var` on are
  untouched (no argument, no unit clause) -/
  arg_lt : ∀ v i, e.ty v = .arg i → v < e.nextDummy
  unit_lt : ∀ v, [pl v] ∈ Γ → v < e.nextDummy
  nd_pos : 1 ≤ e.nextDummy
  nd_le : e.nextDummy ≤ e.nArgVars + 1
  sz : 0 < e.nArgVars → e.argVar.length = st.labels.length
  vars_len : e.nArgVars + e.nArgVars * e.nArgVars < e.vars.length ∧
      (e.sem = .CO → 2 * e.nArgVars + e.nArgVars * e.nArgVars < e.vars.length)

/-- the set of arguments read off an assignment -/
def setOf (st : Store) (e : AEnc) (ν : Asg) : ASet := fun i => st.hasId i && ν (e.xv i)

/-! ## `assumptions(af)` -/

/-- some attack of the framework is mapped to position `t` of the assumption vector -/
def hit (e : AEnc) (st : Store) (t : Nat) : Bool := st.iterAttacks.any (fun p => e.attIndex p == some t)

theorem setAssumptions_spec (e : AEnc) : ∀ (atts : List (Nat × Nat)) (acc : List Lit),
    (∀ p ∈ atts, ∃ t, e.attIndex p = some t ∧ t < acc.length) →
    ∃ r, setAssumptions e atts acc = some r ∧ r.length = acc.length ∧
      ∀ t, r[t]? = if atts.any (fun p => e.attIndex p == some t) = true ∧ t < acc.length
                   then some (pl (1 + t + e.nArgVars)) else acc[t]? := by
  intro atts
  induction atts with
  | nil => intro acc _; exact ⟨acc, rfl, rfl, fun t => by simp⟩
  | cons p rest ih =>
    intro acc h
    obtain ⟨t0, ht0, hlt0⟩ := h p List.mem_cons_self
    obtain ⟨r, hr, hlen, hget⟩ := ih (acc.set t0 (pl (1 + t0 + e.nArgVars))) (by
      intro q hq
      obtain ⟨t, ht, hlt⟩ := h q (List.mem_cons_of_mem _ hq)
      exact ⟨t, ht, by simpa using hlt⟩)
    refine ⟨r, by simp [setAssumptions, ht0, hlt0, hr], by simpa using hlen, ?_⟩
    intro t
    rw [hget t]
    simp only [List.length_set, List.any_cons, ht0, List.getElem?_set]
    by_cases hr' : (rest.any fun p => e.attIndex p == some t) = true
    · by_cases htl : t < acc.length
      · simp [hr', htl]
      · have : acc[t]? = none := List.getElem?_eq_none (by omega)
        have hne : t0 ≠ t := by omega
        simp [htl, hne]
    · by_cases hte : t0 = t
      · subst hte; simp [hlt0]
      · have : ¬ (some t0 == some t) = true := by simp [hte]
        simp [hr', hte]

theorem attIndex_of_vars {e : AEnc} {a b xt xa : Nat} (hb : e.av b = some xt) (ha : e.av a = some xa)
    (h1 : 1 ≤ xt) (h2 : 1 ≤ xa) : e.attIndex (a, b) = some ((xt - 1) * e.nArgVars + xa - 1) := by
  unfold AEnc.attIndex
  have hb' : e.argVar.getD b none = some xt := hb
  have ha' : e.argVar.getD a none = some xa := ha
  simp only [hb', ha']
  have : ¬ (xt = 0 ∨ xa = 0) := by omega
  simp [this]

section
variable {st : Store} {e : AEnc} {Γ : Cnf}

theorem att_vars (hinv : st.Inv) (h : AInv st e Γ) {a b : Nat} (hab : st.HasAtt a b) :
    ∃ i j, i < e.nArgVars ∧ j < e.nArgVars ∧ e.av b = some (i + 1) ∧ e.av a = some (j + 1) ∧
      e.ty (i + 1) = .arg b ∧ e.ty (j + 1) = .arg a := by
  obtain ⟨hla, hlb⟩ := Store.g_wf hinv a b hab
  obtain ⟨xa, hxa, h1, h2, h3⟩ := h.av_live a hla
  obtain ⟨xb, hxb, h4, h5, h6⟩ := h.av_live b hlb
  refine ⟨xb - 1, xa - 1, by omega, by omega, ?_, ?_, ?_, ?_⟩
  · rw [hxb]; congr 1; omega
  · rw [hxa]; congr 1; omega
  · rw [show xb - 1 + 1 = xb by omega]; exact h6
  · rw [show xa - 1 + 1 = xa by omega]; exact h3

theorem assumptions_total (hinv : st.Inv) (h : AInv st e Γ) :
    ∃ as, e.assumptionsOpt st = some as ∧ as.length = e.nArgVars * e.nArgVars ∧
      ∀ t, t < e.nArgVars * e.nArgVars →
        as[t]? = some (if hit e st t = true then pl (1 + t + e.nArgVars) else nl (1 + e.nArgVars + t)) := by
  unfold AEnc.assumptionsOpt
  obtain ⟨r, hr, hlen, hget⟩ := setAssumptions_spec e st.iterAttacks
    ((List.range (e.nArgVars * e.nArgVars)).map (fun i => nl (1 + e.nArgVars + i))) (by
      rintro ⟨a, b⟩ hp
      have hab := (Store.mem_iterAttacks a b).1 hp
      obtain ⟨i, j, hi, hj, hb, ha, -, -⟩ := att_vars hinv h hab
      refine ⟨_, attIndex_of_vars hb ha (by omega) (by omega), ?_⟩
      have := cell_lt hi hj
      simp; omega)
  refine ⟨r, hr, by simpa using hlen, ?_⟩
  intro t ht
  rw [hget t]
  simp only [List.length_map, List.length_range, ht, and_true, hit]
  by_cases hh : (st.iterAttacks.any fun p => e.attIndex p == some t) = true
  · simp [hh]
  · simp [hh, ht]

/-- the attack variables reflect the attacks of the framework -/
def AttOK (st : Store) (e : AEnc) (ν : Asg) : Prop :=
  ∀ i j, i < e.nArgVars → j < e.nArgVars →
    (ν (attVar e.nArgVars (i + 1) (j + 1)) = true ↔
      ∃ a b, st.HasAtt a b ∧ e.av b = some (i + 1) ∧ e.av a = some (j + 1))

theorem hit_iff (hinv : st.Inv) (h : AInv st e Γ) {i j : Nat} (hj : j < e.nArgVars) :
    hit e st (i * e.nArgVars + j) = true ↔
      ∃ a b, st.HasAtt a b ∧ e.av b = some (i + 1) ∧ e.av a = some (j + 1) := by
  unfold hit
  simp only [List.any_eq_true, beq_iff_eq]
  constructor
  · rintro ⟨⟨a, b⟩, hp, hidx⟩
    have hab := (Store.mem_iterAttacks a b).1 hp
    obtain ⟨i', j', hi', hj', hb, ha, -, -⟩ := att_vars hinv h hab
    rw [attIndex_of_vars hb ha (by omega) (by omega)] at hidx
    have e1 : (i' + 1 - 1) * e.nArgVars + (j' + 1) - 1 = i' * e.nArgVars + j' := by
      simp
    rw [e1] at hidx
    obtain ⟨rfl, rfl⟩ := pair_inj hj' hj (Option.some.inj hidx)
    exact ⟨a, b, hab, hb, ha⟩
  · rintro ⟨a, b, hab, hb, ha⟩
    refine ⟨(a, b), (Store.mem_iterAttacks a b).2 hab, ?_⟩
    rw [attIndex_of_vars hb ha (by omega) (by omega)]
    simp

theorem assumps_iff {as : List Lit} {n : Nat} {f : Nat → Bool} (hlen : as.length = n * n)
    (hget : ∀ t, t < n * n → as[t]? = some (if f t = true then pl (1 + t + n) else nl (1 + n + t)))
    (ν : Asg) : assumpsTrue ν as = true ↔ ∀ t, t < n * n → ν (1 + n + t) = f t := by
  unfold assumpsTrue
  rw [List.all_eq_true]
  constructor
  · intro hall t ht
    have hm : (if f t = true then pl (1 + t + n) else nl (1 + n + t)) ∈ as :=
      List.mem_of_getElem? (hget t ht)
    have := hall _ hm
    cases hf : f t with
    | true => rw [hf] at this; simp only [if_true, litTrue_pl] at this; rw [← this]; congr 1; omega
    | false => rw [hf] at this; simpa using this
  · intro hall l hl
    obtain ⟨t, ht, hlt⟩ := List.getElem_of_mem hl
    have hg := hget t (by omega)
    rw [List.getElem?_eq_getElem ht, hlt] at hg
    have hl' := Option.some.inj hg
    have hv := hall t (by omega)
    cases hf : f t with
    | true =>
      rw [hf] at hl' hv
      rw [hl']; simp only [if_true, litTrue_pl]; rw [← hv]; congr 1; omega
    | false =>
      rw [hf] at hl' hv
      rw [hl']; simp [hv]

theorem attOK_of_assumps (hinv : st.Inv) (h : AInv st e Γ) {as : List Lit} {ν : Asg}
    (has : e.assumptionsOpt st = some as) (hA : assumpsTrue ν as = true) : AttOK st e ν := by
  obtain ⟨as', has', hlen, hget⟩ := assumptions_total hinv h
  rw [has] at has'
  obtain rfl := Option.some.inj has'
  have := (assumps_iff hlen hget ν).1 hA
  intro i j hi hj
  rw [attVar_eq, ← hit_iff hinv h hj, ← this (i * e.nArgVars + j) (by have := cell_lt hi hj; omega)]
  rw [show e.nArgVars + e.nArgVars * i + j + 1 = 1 + e.nArgVars + (i * e.nArgVars + j) by
    rw [Nat.mul_comm]; omega]

/-! ## from models to extensions -/

theorem av_inj (h : AInv st e Γ) {a b v : Nat} (ha : st.hasId a = true) (hb : st.hasId b = true)
    (hva : e.av a = some v) (hvb : e.av b = some v) : a = b := by
  obtain ⟨va, h1, -, -, h2⟩ := h.av_live a ha
  obtain ⟨vb, h3, -, -, h4⟩ := h.av_live b hb
  rw [hva] at h1; rw [hvb] at h3
  obtain rfl := Option.some.inj h1
  obtain rfl := Option.some.inj h3
  rw [h2] at h4
  exact AVarType.arg.inj h4

theorem live_var (h : AInv st e Γ) {a : Nat} (ha : st.hasId a = true) :
    ∃ i, i < e.nArgVars ∧ e.av a = some (i + 1) ∧ e.xv a = i + 1 ∧ e.ty (i + 1) = .arg a := by
  obtain ⟨v, h1, h2, h3, h4⟩ := h.av_live a ha
  refine ⟨v - 1, by omega, ?_, ?_, ?_⟩
  · rw [h1]; congr 1; omega
  · unfold AEnc.xv; rw [h1]; simp; omega
  · rw [show v - 1 + 1 = v by omega]; exact h4

theorem stable_of_vstable (hinv : st.Inv) (h : AInv st e Γ) {ν : Asg} (hatt : AttOK st e ν)
    (hv : VStable e.nArgVars ν) : st.g.Stable (setOf st e ν) := by
  have hwf := Store.g_wf hinv
  refine ⟨⟨?_, ?_⟩, ?_⟩
  · intro a ha
    simp only [setOf, Bool.and_eq_true] at ha
    exact ha.1
  · rintro a ha ⟨b, hba, hb⟩
    simp only [setOf, Bool.and_eq_true] at ha hb
    obtain ⟨i, hi, hai, hxi, -⟩ := live_var h ha.1
    obtain ⟨j, hj, hbj, hxj, -⟩ := live_var h hb.1
    rw [hxi] at ha; rw [hxj] at hb
    exact hv.cf i j hi hj ((hatt i j hi hj).2 ⟨b, a, hba, hai, hbj⟩) ha.2 hb.2
  · intro a ha hSa
    obtain ⟨i, hi, hai, hxi, -⟩ := live_var h ha
    have hνa : ν (i + 1) = false := by
      have ha' : st.hasId a = true := ha
      simp only [setOf, ha', Bool.true_and, hxi] at hSa
      exact hSa
    obtain ⟨j, hj, hνj, hatt'⟩ := hv.att i hi hνa
    obtain ⟨a', b', hab, hb', ha'⟩ := (hatt i j hi hj).1 hatt'
    obtain ⟨hla', hlb'⟩ := hwf a' b' hab
    have hba : b' = a := av_inj h hlb' ha hb' hai
    subst hba
    refine ⟨a', hab, ?_⟩
    have hla'' : st.hasId a' = true := hla'
    have : e.xv a' = j + 1 := by unfold AEnc.xv; rw [ha']; rfl
    simp [setOf, hla'', this, hνj]

/-- **soundness of the encoding (stable semantics)** -/
theorem models_stable (hinv : st.Inv) (h : AInv st e Γ) (hsem : e.sem = .ST) {as : List Lit} {ν : Asg}
    (has : e.assumptionsOpt st = some as) (hΓ : cnfTrue ν Γ = true) (hA : assumpsTrue ν as = true) :
    st.g.Stable (setOf st e ν) := by
  apply stable_of_vstable hinv h (attOK_of_assumps hinv h has hA)
  apply vstable_of_model
  intro c hc
  exact clauseTrue_of_mem hΓ (h.enc_in c (by rw [hsem]; exact hc))

/-- in a model of the complete encoding the attacker-disjunction variable of a live argument says
whether the argument is attacked by the set read off the model -/
theorem disj_iff (hinv : st.Inv) (h : AInv st e Γ) {ν : Asg} (hatt : AttOK st e ν)
    (hv : VComplete e.nArgVars ν) {a i : Nat} (ha : st.hasId a = true) (hi : i < e.nArgVars)
    (hai : e.av a = some (i + 1)) :
    ν (disjVar e.nArgVars (i + 1)) = true ↔ st.g.AttackedBy (setOf st e ν) a := by
  have hwf := Store.g_wf hinv
  constructor
  · intro hd
    obtain ⟨j, hj, hνj, hatt'⟩ := hv.dj_out i hi hd
    obtain ⟨a', b', hab, hb', ha'⟩ := (hatt i j hi hj).1 hatt'
    obtain ⟨hla', hlb'⟩ := hwf a' b' hab
    have hba : b' = a := av_inj h hlb' ha hb' hai
    subst hba
    refine ⟨a', hab, ?_⟩
    have hla'' : st.hasId a' = true := hla'
    have : e.xv a' = j + 1 := by unfold AEnc.xv; rw [ha']; rfl
    simp [setOf, hla'', this, hνj]
  · rintro ⟨b, hba, hb⟩
    simp only [setOf, Bool.and_eq_true] at hb
    obtain ⟨j, hj, hbj, hxj, -⟩ := live_var h hb.1
    rw [hxj] at hb
    exact hv.dj_in i j hi hj ((hatt i j hi hj).2 ⟨b, a, hba, hai, hbj⟩) hb.2

theorem complete_of_vcomplete (hinv : st.Inv) (h : AInv st e Γ) {ν : Asg} (hatt : AttOK st e ν)
    (hv : VComplete e.nArgVars ν) : st.g.Complete (setOf st e ν) := by
  have hwf := Store.g_wf hinv
  refine ⟨⟨⟨?_, ?_⟩, ?_⟩, ?_⟩
  · intro a ha
    simp only [setOf, Bool.and_eq_true] at ha
    exact ha.1
  · intro a ha hatk
    simp only [setOf, Bool.and_eq_true] at ha
    obtain ⟨i, hi, hai, hxi, -⟩ := live_var h ha.1
    rw [hxi] at ha
    have := (disj_iff hinv h hatt hv ha.1 hi hai).2 hatk
    rw [hv.cf i hi ha.2] at this
    cases this
  · intro a ha b hba
    simp only [setOf, Bool.and_eq_true] at ha
    obtain ⟨hlb, -⟩ := hwf b a hba
    obtain ⟨i, hi, hai, hxi, -⟩ := live_var h ha.1
    obtain ⟨j, hj, hbj, -, -⟩ := live_var h hlb
    rw [hxi] at ha
    have hd := hv.dfd i j hi hj ((hatt i j hi hj).2 ⟨b, a, hba, hai, hbj⟩) ha.2
    exact (disj_iff hinv h hatt hv hlb hj hbj).1 hd
  · intro a ha hdef
    have ha' : st.hasId a = true := ha
    obtain ⟨i, hi, hai, hxi, -⟩ := live_var h ha'
    simp only [setOf, ha', Bool.true_and, hxi]
    cases hνa : ν (i + 1) with
    | true => rfl
    | false =>
      exfalso
      obtain ⟨j, hj, hatt', hdj⟩ := hv.cpl i hi hνa
      obtain ⟨a', b', hab, hb', ha''⟩ := (hatt i j hi hj).1 hatt'
      obtain ⟨hla', hlb'⟩ := hwf a' b' hab
      have hba : b' = a := av_inj h hlb' ha' hb' hai
      subst hba
      have := (disj_iff hinv h hatt hv hla' hj ha'').2 (hdef a' hab)
      rw [hdj] at this
      cases this

/-- **soundness of the encoding (complete semantics)** -/
theorem models_complete (hinv : st.Inv) (h : AInv st e Γ) (hsem : e.sem = .CO) {as : List Lit} {ν : Asg}
    (has : e.assumptionsOpt st = some as) (hΓ : cnfTrue ν Γ = true) (hA : assumpsTrue ν as = true) :
    st.g.Complete (setOf st e ν) := by
  apply complete_of_vcomplete hinv h (attOK_of_assumps hinv h has hA)
  apply vcomplete_of_model
  intro c hc
  exact clauseTrue_of_mem hΓ (h.enc_in c (by rw [hsem]; exact hc))

/-! ## from extensions to models -/

/-- the assignment describing the set `S` on argument, attack and attacker-disjunction variables
(variables that are not argument variables are true, their attacker disjunction is false) -/
def baseAsg (st : Store) (e : AEnc) (S : ASet) : Asg := fun v =>
  if v ≤ e.nArgVars then (match e.ty v with | .arg a => S a | _ => true)
  else if v ≤ e.nArgVars * (1 + e.nArgVars) then hit e st (v - e.nArgVars - 1)
  else match e.ty (v - e.nArgVars * (1 + e.nArgVars)) with
    | .arg a => (attackersOf st a).any S
    | _ => false

theorem base_arg (S : ASet) {i : Nat} (hi : i < e.nArgVars) :
    baseAsg st e S (i + 1) = (match e.ty (i + 1) with | .arg a => S a | _ => true) := by
  have : i + 1 ≤ e.nArgVars := by omega
  simp [baseAsg, this]

theorem base_att (S : ASet) {i j : Nat} (hi : i < e.nArgVars) (hj : j < e.nArgVars) :
    baseAsg st e S (attVar e.nArgVars (i + 1) (j + 1)) = hit e st (i * e.nArgVars + j) := by
  have hb := attVar_bounds hi hj
  have h1 : ¬ attVar e.nArgVars (i + 1) (j + 1) ≤ e.nArgVars := by omega
  simp only [baseAsg, h1, hb.2, if_false, if_true]
  congr 1
  rw [attVar_eq, Nat.mul_comm]; omega

theorem base_disj (S : ASet) {i : Nat} (hi : i < e.nArgVars) :
    baseAsg st e S (disjVar e.nArgVars (i + 1)) =
      (match e.ty (i + 1) with | .arg a => (attackersOf st a).any S | _ => false) := by
  have hb := disjVar_bounds hi
  have h3 : e.nArgVars * (1 + e.nArgVars) = e.nArgVars + e.nArgVars * e.nArgVars := by
    rw [Nat.mul_add]; omega
  have h1 : ¬ disjVar e.nArgVars (i + 1) ≤ e.nArgVars := by omega
  have h2 : ¬ disjVar e.nArgVars (i + 1) ≤ e.nArgVars * (1 + e.nArgVars) := by omega
  have h4 : disjVar e.nArgVars (i + 1) - e.nArgVars * (1 + e.nArgVars) = i + 1 := by
    unfold disjVar; omega
  simp only [baseAsg, h1, h2, if_false, h4]

theorem base_attOK (hinv : st.Inv) (h : AInv st e Γ) (S : ASet) : AttOK st e (baseAsg st e S) := by
  intro i j hi hj
  rw [base_att S hi hj, hit_iff hinv h hj]

theorem ty_of_av (h : AInv st e Γ) {a i : Nat} (ha : st.hasId a = true) (hai : e.av a = some (i + 1)) :
    e.ty (i + 1) = .arg a := by
  obtain ⟨i', -, hai', -, hty⟩ := live_var h ha
  rw [hai] at hai'
  have : i + 1 = i' + 1 := Option.some.inj hai'
  rw [this]; exact hty

theorem base_live (h : AInv st e Γ) (S : ASet) {a i : Nat} (ha : st.hasId a = true) (hi : i < e.nArgVars)
    (hai : e.av a = some (i + 1)) : baseAsg st e S (i + 1) = S a := by
  rw [base_arg S hi, ty_of_av h ha hai]

theorem base_false (h : AInv st e Γ) (S : ASet) {i : Nat} (hi : i < e.nArgVars)
    (hf : baseAsg st e S (i + 1) = false) :
    ∃ a, st.hasId a = true ∧ e.av a = some (i + 1) ∧ S a = false := by
  rw [base_arg S hi] at hf
  cases hty : e.ty (i + 1) with
  | arg a =>
    rw [hty] at hf
    obtain ⟨hl, hav⟩ := h.ty_arg _ _ hty
    exact ⟨a, hl, hav, hf⟩
  | disj _ => rw [hty] at hf; cases hf
  | attack => rw [hty] at hf; cases hf
  | ignored => rw [hty] at hf; cases hf

theorem vstable_base (hinv : st.Inv) (h : AInv st e Γ) {S : ASet} (hS : st.g.Stable S) :
    VStable e.nArgVars (baseAsg st e S) := by
  have hwf := Store.g_wf hinv
  have hatt := base_attOK hinv h S
  constructor
  · intro i j hi hj hat hx ha
    obtain ⟨a', b', hab, hb', ha'⟩ := (hatt i j hi hj).1 hat
    obtain ⟨hla', hlb'⟩ := hwf a' b' hab
    rw [base_live h S hlb' hi hb'] at hx
    rw [base_live h S hla' hj ha'] at ha
    exact hS.1.2 b' hx ⟨a', hab, ha⟩
  · intro i hi hf
    obtain ⟨a, hla, hai, hSa⟩ := base_false h S hi hf
    obtain ⟨b, hba, hSb⟩ := hS.2 a hla hSa
    obtain ⟨hlb, -⟩ := hwf b a hba
    obtain ⟨j, hj, hbj, -, -⟩ := live_var h hlb
    refine ⟨j, hj, ?_, (hatt i j hi hj).2 ⟨b, a, hba, hai, hbj⟩⟩
    rw [base_live h S hlb hj hbj]; exact hSb

theorem base_disj_live (hinv : st.Inv) (h : AInv st e Γ) (S : ASet) {a i : Nat} (ha : st.hasId a = true)
    (hi : i < e.nArgVars) (hai : e.av a = some (i + 1)) :
    baseAsg st e S (disjVar e.nArgVars (i + 1)) = true ↔ st.g.AttackedBy S a := by
  rw [base_disj S hi, ty_of_av h ha hai]
  exact any_attackers_iff hinv S a

theorem vcomplete_base (hinv : st.Inv) (h : AInv st e Γ) {S : ASet} (hS : st.g.Complete S) :
    VComplete e.nArgVars (baseAsg st e S) := by
  have hwf := Store.g_wf hinv
  have hatt := base_attOK hinv h S
  constructor
  · intro i hi hx
    rw [base_disj S hi]
    rw [base_arg S hi] at hx
    cases hty : e.ty (i + 1) with
    | arg a =>
      rw [hty] at hx
      simp only
      cases hany : (attackersOf st a).any S with
      | false => rfl
      | true => exact absurd ((any_attackers_iff hinv S a).1 hany) (hS.1.1.2 a hx)
    | disj _ => rfl
    | attack => rfl
    | ignored => rfl
  · intro i j hi hj hat hx
    obtain ⟨a', b', hab, hb', ha'⟩ := (hatt i j hi hj).1 hat
    obtain ⟨hla', hlb'⟩ := hwf a' b' hab
    rw [base_live h S hlb' hi hb'] at hx
    exact (base_disj_live hinv h S hla' hj ha').2 (hS.1.2 b' hx a' hab)
  · intro i hi hf
    obtain ⟨a, hla, hai, hSa⟩ := base_false h S hi hf
    have : ∃ b, st.HasAtt b a ∧ ¬ st.g.AttackedBy S b := by
      apply Classical.byContradiction
      intro hne
      have hdef : st.g.Defended S a := fun b hb =>
        Classical.byContradiction fun hn => hne ⟨b, hb, hn⟩
      rw [hS.2 a hla hdef] at hSa
      cases hSa
    obtain ⟨b, hba, hnb⟩ := this
    obtain ⟨hlb, -⟩ := hwf b a hba
    obtain ⟨j, hj, hbj, -, -⟩ := live_var h hlb
    refine ⟨j, hj, (hatt i j hi hj).2 ⟨b, a, hba, hai, hbj⟩, ?_⟩
    cases hd : baseAsg st e S (disjVar e.nArgVars (j + 1)) with
    | false => rfl
    | true => exact absurd ((base_disj_live hinv h S hlb hj hbj).1 hd) hnb
  · intro i j hi hj hat ha
    obtain ⟨a', b', hab, hb', ha'⟩ := (hatt i j hi hj).1 hat
    obtain ⟨hla', hlb'⟩ := hwf a' b' hab
    rw [base_live h S hla' hj ha'] at ha
    exact (base_disj_live hinv h S hlb' hi hb').2 ⟨a', hab, ha⟩
  · intro i hi hd
    rw [base_disj S hi] at hd
    cases hty : e.ty (i + 1) with
    | arg a =>
      rw [hty] at hd
      obtain ⟨hla, hai⟩ := h.ty_arg _ _ hty
      obtain ⟨b, hba, hSb⟩ := (any_attackers_iff hinv S a).1 hd
      obtain ⟨hlb, -⟩ := hwf b a hba
      obtain ⟨j, hj, hbj, -, -⟩ := live_var h hlb
      refine ⟨j, hj, ?_, (hatt i j hi hj).2 ⟨b, a, hba, hai, hbj⟩⟩
      rw [base_live h S hlb hj hbj]; exact hSb
    | disj _ => rw [hty] at hd; cases hd
    | attack => rw [hty] at hd; cases hd
    | ignored => rw [hty] at hd; cases hd

theorem base_unit (S : ASet) {v : Nat} (h2 : v ≤ e.nArgVars) (h3 : ∀ a, e.ty v ≠ .arg a) :
    baseAsg st e S v = true := by
  have : baseAsg st e S v = (match e.ty v with | .arg a => S a | _ => true) := by
    simp only [baseAsg, h2, if_true]
  rw [this]
  cases hty : e.ty v with
  | arg a => exact absurd hty (h3 a)
  | disj _ => rfl
  | attack => rfl
  | ignored => rfl

theorem base_assumption (S : ASet) {t : Nat} (ht : t < e.nArgVars * e.nArgVars) :
    baseAsg st e S (1 + e.nArgVars + t) = hit e st t := by
  have h3 : e.nArgVars * (1 + e.nArgVars) = e.nArgVars + e.nArgVars * e.nArgVars := by
    rw [Nat.mul_add]; omega
  have h1 : ¬ 1 + e.nArgVars + t ≤ e.nArgVars := by omega
  have h2 : 1 + e.nArgVars + t ≤ e.nArgVars * (1 + e.nArgVars) := by omega
  simp only [baseAsg, h1, h2, if_false, if_true]
  congr 1; omega

/-- **completeness of the encoding (stable semantics)**: every stable extension of the current
framework is described by a model of the clause database under `assumptions(af)` -/
theorem stable_model (hinv : st.Inv) (h : AInv st e Γ) (hsem : e.sem = .ST) {as : List Lit}
    (has : e.assumptionsOpt st = some as) {S : ASet} (hS : st.g.Stable S) :
    ∃ ν, cnfTrue ν Γ = true ∧ assumpsTrue ν as = true ∧ ∀ i, setOf st e ν i = S i := by
  have h3 : e.nArgVars * (1 + e.nArgVars) = e.nArgVars + e.nArgVars * e.nArgVars := by
    rw [Nat.mul_add]; omega
  refine ⟨extST e.nArgVars (baseAsg st e S), ?_, ?_, ?_⟩
  · unfold cnfTrue
    rw [List.all_eq_true]
    intro c hc
    rcases h.db_kind c hc with hk | ⟨v, rfl, h1, h2, h3'⟩
    · rw [hsem] at hk
      exact model_of_vstable (vstable_base hinv h hS) c hk
    · simp only [clauseTrue, List.any_cons, List.any_nil, Bool.or_false, litTrue_pl]
      rw [extST_low (by omega)]
      exact base_unit S h2 h3'
  · obtain ⟨as', has', hlen, hget⟩ := assumptions_total hinv h
    rw [has] at has'
    obtain rfl := Option.some.inj has'
    apply (assumps_iff hlen hget _).2
    intro t ht
    rw [extST_low (by omega)]
    exact base_assumption S ht
  · intro i
    unfold setOf
    cases hl : st.hasId i with
    | false =>
      simp only [Bool.false_and]
      cases hSi : S i with
      | false => rfl
      | true => have : st.hasId i = true := hS.1.1 i hSi; rw [hl] at this; cases this
    | true =>
      obtain ⟨k, hk, hik, hxk, -⟩ := live_var h hl
      rw [hxk, Bool.true_and, extST_low (by omega)]
      exact base_live h S hl hk hik

/-- **completeness of the encoding (complete semantics)** -/
theorem complete_model (hinv : st.Inv) (h : AInv st e Γ) (hsem : e.sem = .CO) {as : List Lit}
    (has : e.assumptionsOpt st = some as) {S : ASet} (hS : st.g.Complete S) :
    ∃ ν, cnfTrue ν Γ = true ∧ assumpsTrue ν as = true ∧ ∀ i, setOf st e ν i = S i := by
  have h4 : e.nArgVars * (2 + e.nArgVars) = 2 * e.nArgVars + e.nArgVars * e.nArgVars := by
    rw [Nat.mul_add]; omega
  refine ⟨extCO e.nArgVars (baseAsg st e S), ?_, ?_, ?_⟩
  · unfold cnfTrue
    rw [List.all_eq_true]
    intro c hc
    rcases h.db_kind c hc with hk | ⟨v, rfl, h1, h2, h3'⟩
    · rw [hsem] at hk
      exact model_of_vcomplete (vcomplete_base hinv h hS) c hk
    · simp only [clauseTrue, List.any_cons, List.any_nil, Bool.or_false, litTrue_pl]
      rw [extCO_low (by omega)]
      exact base_unit S h2 h3'
  · obtain ⟨as', has', hlen, hget⟩ := assumptions_total hinv h
    rw [has] at has'
    obtain rfl := Option.some.inj has'
    apply (assumps_iff hlen hget _).2
    intro t ht
    rw [extCO_low (by omega)]
    exact base_assumption S ht
  · intro i
    unfold setOf
    cases hl : st.hasId i with
    | false =>
      simp only [Bool.false_and]
      cases hSi : S i with
      | false => rfl
      | true => have : st.hasId i = true := hS.1.1.1 i hSi; rw [hl] at this; cases this
    | true =>
      obtain ⟨k, hk, hik, hxk, -⟩ := live_var h hl
      rw [hxk, Bool.true_and, extCO_low (by omega)]
      exact base_live h S hl hk hik

end

end Crusta.DynAtt
