import Crusta.Proofs.RxSem
import Crusta.Gen.ApxPatterns

/-!
# The scanners of the Aspartix reader model implement the regular expressions of the Rust source

`Crusta.Gen.argLine`, `argLineName`, `attLine`, `attLineNames` are regenerated from
`src/io/aspartix_reader.rs` on every run; every statement below is about these definitions (they
are unfolded in `argLine_nf`, `attLine_nf`, `argLineName_nf`, `attLineNames_nf`, and nowhere else),
so a change of a source pattern breaks this file.

Main results (`l` a line; "no LF" = `∀ c ∈ l, c ≠ 10`, which holds for the items of
`BufRead::lines`):
* `matchArg_iff`, `matchAtt_iff` (no LF): the scanners return exactly the trimmed captures of the
  strict patterns; `argLineName_capture_unique`, `attLineNames_capture_unique`: the captures are
  unique, so the leftmost-first rule of the regex crate has nothing to choose;
* `matchArg_of_matchesG`, `matchAtt_of_matchesG`: regex ⟹ scanner needs no hypothesis;
  `lf_disagreement`, `matchArg_iff_general`: scanner ⟹ regex fails exactly when the `.` of the
  pattern faces a line feed (`.` excludes `\n`, `scanTail` accepts every code point);
* `strict_sub_loose_arg`, `strict_sub_loose_att`, `arg_att_exclusive`, `blank_matches_none`
  (no hypothesis);
* `apx_line_classification` (no LF): the five-way partition of the lines and the branch taken by
  `apxLine` in each class.

The only facts used on the Unicode tables: `\s` is disjoint from `[_[:alpha:]\d]` (checked on the
range tables by `decide`), and `a`, `)`, `,` are neither blanks nor identifier characters.
-/

namespace Crusta.RxApx
open Crusta.IO Crusta.Rx

/-! ## facts on the character classes -/

/-- two range tables without common point -/
theorem inRanges_disjoint (rs ss : List (Nat × Nat))
    (h : (rs.all fun r => ss.all fun s => decide (r.2 < s.1) || decide (s.2 < r.1)) = true)
    (c : Nat) (hc : inRanges rs c = true) : inRanges ss c = false := by
  rw [Bool.eq_false_iff]
  intro hs
  simp only [inRanges, List.any_eq_true, Bool.and_eq_true, decide_eq_true_eq] at hc hs
  obtain ⟨r, hr, hr1, hr2⟩ := hc
  obtain ⟨s, hs, hs1, hs2⟩ := hs
  simp only [List.all_eq_true, Bool.or_eq_true, decide_eq_true_eq] at h
  have := h r hr s hs
  omega

theorem isIdChar_eq (c : Nat) :
    isIdChar c = inRanges ([(95, 95), (65, 90), (97, 122)] ++ Gen.decimalRanges) c := by
  simp only [isIdChar, isAlphaA, isDigitU, inRanges, List.any_append, List.any_cons, List.any_nil,
    Bool.or_false, Bool.or_assoc]
  congr 1
  rw [Bool.eq_iff_iff]
  simp only [beq_iff_eq, Bool.and_eq_true, decide_eq_true_eq]
  omega

/-- `\s` is disjoint from `[_[:alpha:]\d]` -/
theorem isWs_not_isIdChar (c : Nat) (h : isWs c = true) : isIdChar c = false := by
  rw [isIdChar_eq]
  exact inRanges_disjoint _ _ (by decide) c h

theorem isIdStart_isIdChar (c : Nat) (h : isIdStart c = true) : isIdChar c = true := by
  simp only [isIdStart, Bool.or_eq_true] at h
  simp only [isIdChar, Bool.or_eq_true]
  exact Or.inl h

theorem isIdChar_not_isWs (c : Nat) (h : isIdChar c = true) : isWs c = false := by
  rw [Bool.eq_false_iff]; intro hw
  rw [isWs_not_isIdChar c hw] at h; cases h

theorem isWs_97 : isWs 97 = false := by decide
theorem isWs_41 : isWs 41 = false := by decide
theorem isWs_44 : isWs 44 = false := by decide
theorem isIdChar_41 : isIdChar 41 = false := by decide
theorem isIdChar_44 : isIdChar 44 = false := by decide

/-! ## `takeWhile` / `dropWhile` on a split string -/

theorem takeWhile_dropWhile_split {p : Nat → Bool} (u r : Str) (hu : u.all p = true)
    (hr : ∀ x ∈ r.head?, p x = false) :
    (u ++ r).takeWhile p = u ∧ (u ++ r).dropWhile p = r := by
  induction u with
  | nil =>
    cases r with
    | nil => exact ⟨rfl, rfl⟩
    | cons x r => have := hr x (by simp); simp [this]
  | cons c cs ih =>
    simp only [List.all_cons, Bool.and_eq_true] at hu
    have := ih hu.2
    simp [hu.1, this.1, this.2]

/-- a maximal `p`-prefix is unique -/
theorem split_unique {p : Nat → Bool} {u u' r r' : Str} (hu : u.all p = true) (hu' : u'.all p = true)
    (hr : ∀ x ∈ r.head?, p x = false) (hr' : ∀ x ∈ r'.head?, p x = false)
    (h : u ++ r = u' ++ r') : u = u' ∧ r = r' := by
  have h1 := takeWhile_dropWhile_split u r hu hr
  have h2 := takeWhile_dropWhile_split u' r' hu' hr'
  rw [h] at h1
  exact ⟨h1.1.symm.trans h2.1, h1.2.symm.trans h2.2⟩

theorem head_cons_not {p : Nat → Bool} {a : Nat} {r : Str} (h : p a = false) :
    ∀ x ∈ (a :: r).head?, p x = false := by
  intro x hx; simp at hx; subst hx; exact h

/-! ## the classes of the patterns -/

theorem cls_ws : clsHolds false [Atom.ws] = isWs := by
  funext c; simp [clsHolds, Atom.holds]

theorem cls_idStart : clsHolds false [Atom.ch 95, Atom.alpha] = isIdStart := by
  funext c; simp [clsHolds, Atom.holds, isIdStart]

theorem cls_idChar : clsHolds false [Atom.ch 95, Atom.alpha, Atom.digit] = isIdChar := by
  funext c; simp [clsHolds, Atom.holds, isIdChar, Bool.or_assoc]

theorem cls_not (d : Nat) : clsHolds true [Atom.ch d] = fun c => c != d := by
  funext c; simp [clsHolds, Atom.holds, bne]

/-! ## normal forms -/

/-- `g` is `\s*[_[:alpha:]][_[:alpha:]\d]*\s*` with identifier `id` -/
def IdSp (g id : Str) : Prop :=
  ∃ u c ds v, g = u ++ c :: (ds ++ v) ∧ u.all isWs = true ∧ isIdStart c = true ∧
    ds.all isIdChar = true ∧ v.all isWs = true ∧ id = c :: ds

/-- `\s*arg\(g\)x\s*` with `g` an identifier surrounded by blanks -/
def StrictArg (l g : Str) (x : Nat) (id : Str) : Prop :=
  ∃ w1 w2, l = w1 ++ 97 :: 114 :: 103 :: 40 :: (g ++ 41 :: x :: w2) ∧
    w1.all isWs = true ∧ IdSp g id ∧ w2.all isWs = true

/-- `\s*att\(g1,g2\)x\s*` -/
def StrictAtt (l g1 g2 : Str) (x : Nat) (a b : Str) : Prop :=
  ∃ w1 w2, l = w1 ++ 97 :: 116 :: 116 :: 40 :: (g1 ++ 44 :: (g2 ++ 41 :: x :: w2)) ∧
    w1.all isWs = true ∧ IdSp g1 a ∧ IdSp g2 b ∧ w2.all isWs = true

/-- `\s*arg\(m\)x\s*` with `m` non-empty without `)`, `x ≠ \n` -/
def LooseArg (l : Str) : Prop :=
  ∃ w1 m x w2, l = w1 ++ 97 :: 114 :: 103 :: 40 :: (m ++ 41 :: x :: w2) ∧
    w1.all isWs = true ∧ m ≠ [] ∧ m.all (fun c => c != 41) = true ∧ x ≠ 10 ∧ w2.all isWs = true

/-- `\s*att\(m1,m2\)x\s*` with `m1` non-empty without `,`, `m2` non-empty without `)` -/
def LooseAtt (l : Str) : Prop :=
  ∃ w1 m1 m2 x w2, l = w1 ++ 97 :: 116 :: 116 :: 40 :: (m1 ++ 44 :: (m2 ++ 41 :: x :: w2)) ∧
    w1.all isWs = true ∧ m1 ≠ [] ∧ m1.all (fun c => c != 44) = true ∧
    m2 ≠ [] ∧ m2.all (fun c => c != 41) = true ∧ x ≠ 10 ∧ w2.all isWs = true

theorem argLine_nf (l : Str) : Matches Gen.argLine l ↔ LooseArg l := by
  unfold Gen.argLine LooseArg
  simp only [matches_starcls_cat, matches_chr_cat, matches_pluscls_cat, matches_any_cat,
    matches_star_cls, cls_ws, cls_not]
  constructor
  · rintro ⟨w1, _, rfl, hw1, _, rfl, _, rfl, _, rfl, _, rfl, m, _, rfl, ⟨hm, hm'⟩, _, rfl, x, w2, rfl, hx, hw2⟩
    exact ⟨w1, m, x, w2, rfl, hw1, hm, hm', hx, hw2⟩
  · rintro ⟨w1, m, x, w2, rfl, hw1, hm, hm', hx, hw2⟩
    exact ⟨w1, _, rfl, hw1, _, rfl, _, rfl, _, rfl, _, rfl, m, _, rfl, ⟨hm, hm'⟩, _, rfl, x, w2, rfl, hx, hw2⟩

theorem attLine_nf (l : Str) : Matches Gen.attLine l ↔ LooseAtt l := by
  unfold Gen.attLine LooseAtt
  simp only [matches_starcls_cat, matches_chr_cat, matches_pluscls_cat, matches_any_cat,
    matches_star_cls, cls_ws, cls_not]
  constructor
  · rintro ⟨w1, _, rfl, hw1, _, rfl, _, rfl, _, rfl, _, rfl, m1, _, rfl, ⟨hm1, hm1'⟩, _, rfl,
      m2, _, rfl, ⟨hm2, hm2'⟩, _, rfl, x, w2, rfl, hx, hw2⟩
    exact ⟨w1, m1, m2, x, w2, rfl, hw1, hm1, hm1', hm2, hm2', hx, hw2⟩
  · rintro ⟨w1, m1, m2, x, w2, rfl, hw1, hm1, hm1', hm2, hm2', hx, hw2⟩
    exact ⟨w1, _, rfl, hw1, _, rfl, _, rfl, _, rfl, _, rfl, m1, _, rfl, ⟨hm1, hm1'⟩, _, rfl,
      m2, _, rfl, ⟨hm2, hm2'⟩, _, rfl, x, w2, rfl, hx, hw2⟩

/-- the body of the capturing groups -/
theorem idGroup_nf (g : Str) :
    (∃ u t, g = u ++ t ∧ u.all isWs = true ∧ ∃ c t', t = c :: t' ∧ isIdStart c = true ∧
      ∃ ds v, t' = ds ++ v ∧ ds.all isIdChar = true ∧ v.all isWs = true) ↔ ∃ id, IdSp g id := by
  constructor
  · rintro ⟨u, _, rfl, hu, c, _, rfl, hc, ds, v, rfl, hds, hv⟩
    exact ⟨_, u, c, ds, v, rfl, hu, hc, hds, hv, rfl⟩
  · rintro ⟨_, u, c, ds, v, rfl, hu, hc, hds, hv, rfl⟩
    exact ⟨u, _, rfl, hu, c, _, rfl, hc, ds, v, rfl, hds, hv⟩

theorem argLineName_nf (l : Str) (gs : List Str) :
    MatchesG Gen.argLineName l gs ↔ ∃ g x id, gs = [g] ∧ StrictArg l g x id ∧ x ≠ 10 := by
  unfold Gen.argLineName StrictArg
  simp (config := { decide := true }) only [matchesG_starcls_cat, matchesG_chr_cat, matchesG_grp_cat, matchesG_of_noGroup,
    matches_starcls_cat, matches_cls_cat, matches_chr_cat, matches_any_cat,
    matches_star_cls, cls_ws, cls_idStart, cls_idChar, idGroup_nf]
  constructor
  · rintro ⟨w1, _, rfl, hw1, _, rfl, _, rfl, _, rfl, _, rfl, g, _, _, rfl, rfl, ⟨id, hid⟩,
      ⟨_, rfl, x, w2, rfl, hx, hw2⟩, rfl⟩
    exact ⟨g, x, id, rfl, ⟨w1, w2, rfl, hw1, hid, hw2⟩, hx⟩
  · rintro ⟨g, x, id, rfl, ⟨w1, w2, rfl, hw1, hid, hw2⟩, hx⟩
    exact ⟨w1, _, rfl, hw1, _, rfl, _, rfl, _, rfl, _, rfl, g, _, _, rfl, rfl, ⟨id, hid⟩,
      ⟨_, rfl, x, w2, rfl, hx, hw2⟩, rfl⟩

theorem attLineNames_nf (l : Str) (gs : List Str) :
    MatchesG Gen.attLineNames l gs ↔
      ∃ g1 g2 x a b, gs = [g1, g2] ∧ StrictAtt l g1 g2 x a b ∧ x ≠ 10 := by
  unfold Gen.attLineNames StrictAtt
  simp (config := { decide := true }) only [matchesG_starcls_cat, matchesG_chr_cat, matchesG_grp_cat, matchesG_of_noGroup,
    matches_starcls_cat, matches_cls_cat, matches_chr_cat, matches_any_cat,
    matches_star_cls, cls_ws, cls_idStart, cls_idChar, idGroup_nf]
  constructor
  · rintro ⟨w1, _, rfl, hw1, _, rfl, _, rfl, _, rfl, _, rfl, g1, _, _, rfl, rfl, ⟨a, ha⟩,
      _, rfl, g2, _, _, rfl, rfl, ⟨b, hb⟩, ⟨_, rfl, x, w2, rfl, hx, hw2⟩, rfl⟩
    exact ⟨g1, g2, x, a, b, rfl, ⟨w1, w2, rfl, hw1, ha, hb, hw2⟩, hx⟩
  · rintro ⟨g1, g2, x, a, b, rfl, ⟨w1, w2, rfl, hw1, ha, hb, hw2⟩, hx⟩
    exact ⟨w1, _, rfl, hw1, _, rfl, _, rfl, _, rfl, _, rfl, g1, _, _, rfl, rfl, ⟨a, ha⟩,
      _, rfl, g2, _, _, rfl, rfl, ⟨b, hb⟩, ⟨_, rfl, x, w2, rfl, hx, hw2⟩, rfl⟩

/-! ## properties of `IdSp` -/

theorem all_mono {p q : Nat → Bool} {l : Str} (h : ∀ c, p c = true → q c = true)
    (hl : l.all p = true) : l.all q = true := by
  rw [List.all_eq_true] at hl ⊢
  exact fun c hc => h c (hl c hc)

/-- a string of `\s*ID\s*` contains neither `)` nor `,` (nor anything below `0` but blanks) -/
theorem IdSp.all_ne {g id : Str} (h : IdSp g id) (t : Nat) (htw : isWs t = false)
    (hti : isIdChar t = false) : g.all (fun c => c != t) = true := by
  obtain ⟨u, c, ds, v, rfl, hu, hc, hds, hv, _⟩ := h
  have hws : ∀ c, isWs c = true → (c != t) = true := by
    intro c hc; simp only [bne_iff_ne]; rintro rfl; rw [hc] at htw; cases htw
  have hid : ∀ c, isIdChar c = true → (c != t) = true := by
    intro c hc; simp only [bne_iff_ne]; rintro rfl; rw [hc] at hti; cases hti
  simp only [List.all_append, List.all_cons, Bool.and_eq_true]
  exact ⟨all_mono hws hu, hid c (isIdStart_isIdChar c hc), all_mono hid hds, all_mono hws hv⟩

theorem IdSp.ne_nil {g id : Str} (h : IdSp g id) : g ≠ [] := by
  obtain ⟨u, c, ds, v, rfl, _⟩ := h
  simp

/-- the identifier is the trimmed capture (`captured_arg` of the Rust code) -/
theorem IdSp.trim {g id : Str} (h : IdSp g id) : trimWs g = id := by
  obtain ⟨u, c, ds, v, rfl, hu, hc, hds, hv, rfl⟩ := h
  have hcw : isWs c = false := isIdChar_not_isWs c (isIdStart_isIdChar c hc)
  unfold trimWs
  rw [(takeWhile_dropWhile_split u (c :: (ds ++ v)) hu (head_cons_not hcw)).2]
  have e : (c :: (ds ++ v)).reverse = v.reverse ++ (c :: ds).reverse := by simp
  have hh : ∀ x ∈ ((c :: ds).reverse).head?, isWs x = false := by
    intro x hx
    have hm : x ∈ (c :: ds).reverse := List.mem_of_mem_head? hx
    rw [List.mem_reverse, List.mem_cons] at hm
    rcases hm with rfl | hm
    · exact hcw
    · exact isIdChar_not_isWs x (List.all_eq_true.1 hds x hm)
  rw [e, (takeWhile_dropWhile_split v.reverse _ (by simpa using hv) hh).2, List.reverse_reverse]

/-! ## the scanners -/

theorem scanName_iff (l : Str) (term : Nat) (htw : isWs term = false) (hti : isIdChar term = false)
    (id rest : Str) :
    scanName l term = some (id, rest) ↔ ∃ g, l = g ++ term :: rest ∧ IdSp g id := by
  constructor
  · intro h
    unfold scanName at h
    simp only at h
    have hl := (List.takeWhile_append_dropWhile (p := isWs) (l := l)).symm
    generalize hl1 : l.dropWhile isWs = l1 at h hl
    cases l1 with
    | nil => simp at h
    | cons c r =>
      simp only at h
      by_cases hc : isIdStart c = true
      · have hcc := isIdStart_isIdChar c hc
        simp only [hc, Bool.not_true, Bool.false_eq_true, if_false, List.dropWhile_cons,
          List.takeWhile_cons, hcc, if_true] at h
        have hr := (List.takeWhile_append_dropWhile (p := isIdChar) (l := r)).symm
        have hr2 := (List.takeWhile_append_dropWhile (p := isWs) (l := r.dropWhile isIdChar)).symm
        generalize hl2 : (r.dropWhile isIdChar).dropWhile isWs = l2 at h hr2
        cases l2 with
        | nil => simp at h
        | cons t rest' =>
          simp only at h
          by_cases ht : (t == term) = true
          · simp only [ht, if_true, Option.some.injEq, Prod.mk.injEq] at h
            obtain ⟨rfl, rfl⟩ := h
            have : t = term := by simpa using ht
            subst this
            refine ⟨l.takeWhile isWs ++
              c :: (r.takeWhile isIdChar ++ (r.dropWhile isIdChar).takeWhile isWs), ?_,
              ⟨_, c, _, _, rfl, List.all_takeWhile, hc, List.all_takeWhile, List.all_takeWhile, rfl⟩⟩
            have e : l = l.takeWhile isWs ++ c :: (r.takeWhile isIdChar ++
                ((r.dropWhile isIdChar).takeWhile isWs ++ t :: rest')) := by
              rw [← hr2, ← hr]; exact hl
            simpa [List.append_assoc] using e
          · simp [ht] at h
      · simp [hc] at h
  · rintro ⟨g, rfl, u, c, ds, v, rfl, hu, hc, hds, hv, rfl⟩
    have hcc := isIdStart_isIdChar c hc
    have hcw := isIdChar_not_isWs c hcc
    have e0 : (u ++ c :: (ds ++ v)) ++ term :: rest = u ++ c :: (ds ++ (v ++ term :: rest)) := by simp
    have e1 := (takeWhile_dropWhile_split u (c :: (ds ++ (v ++ term :: rest))) hu (head_cons_not hcw)).2
    have hvh : ∀ x ∈ (v ++ term :: rest).head?, isIdChar x = false := by
      cases v with
      | nil => exact head_cons_not hti
      | cons y v =>
        simp only [List.all_cons, Bool.and_eq_true] at hv
        exact head_cons_not (isWs_not_isIdChar y hv.1)
    have e2 := takeWhile_dropWhile_split (p := isIdChar) (c :: ds) (v ++ term :: rest)
      (by simp [hcc, hds]) hvh
    have e3 := (takeWhile_dropWhile_split v (term :: rest) hv (head_cons_not htw)).2
    simp only [List.cons_append] at e2
    unfold scanName
    simp only [e0, e1, hc, Bool.not_true, Bool.false_eq_true, if_false, e2.1, e2.2, e3, beq_self_eq_true,
      if_true]

theorem scanTail_iff (rest : Str) :
    scanTail rest = true ↔ ∃ x w2, rest = x :: w2 ∧ w2.all isWs = true := by
  cases rest with
  | nil => simp [scanTail]
  | cons x w2 =>
    simp only [scanTail]
    constructor
    · intro h; exact ⟨x, w2, rfl, h⟩
    · rintro ⟨_, _, h, hw⟩; cases h; exact hw

theorem dropPrefix_iff (p m r : Str) : dropPrefix p m = some r ↔ m = p ++ r := by
  unfold dropPrefix
  constructor
  · intro h
    split at h
    · rename_i hp
      rw [List.isPrefixOf_iff_prefix] at hp
      obtain ⟨t, rfl⟩ := hp
      simp at h
      rw [h]
    · cases h
  · rintro rfl
    simp

theorem strOf_arg : strOf "arg(" = [97, 114, 103, 40] := by decide
theorem strOf_att : strOf "att(" = [97, 116, 116, 40] := by decide

/-- the argument scanner accepts exactly the lines `\s*arg\(\s*ID\s*\)x\s*` (any `x`) and returns `ID` -/
theorem matchArg_nf (l id : Str) : matchArg l = some id ↔ ∃ g x, StrictArg l g x id := by
  constructor
  · intro h
    unfold matchArg at h
    have hl := (List.takeWhile_append_dropWhile (p := isWs) (l := l)).symm
    generalize l.dropWhile isWs = l1 at h hl
    cases hdp : dropPrefix (strOf "arg(") l1 with
    | none => simp [hdp] at h
    | some r =>
      simp only [hdp] at h
      rw [dropPrefix_iff, strOf_arg] at hdp
      cases hs : scanName r 41 with
      | none => simp [hs] at h
      | some q =>
        obtain ⟨id', rest⟩ := q
        simp only [hs] at h
        by_cases ht : scanTail rest = true
        · simp only [ht, if_true, Option.some.injEq] at h
          subst h
          obtain ⟨g, rfl, hg⟩ := (scanName_iff r 41 isWs_41 isIdChar_41 _ _).1 hs
          obtain ⟨x, w2, rfl, hw2⟩ := (scanTail_iff rest).1 ht
          subst hdp
          exact ⟨g, x, l.takeWhile isWs, w2, hl, List.all_takeWhile, hg, hw2⟩
        · simp [ht] at h
  · rintro ⟨g, x, w1, w2, rfl, hw1, hid, hw2⟩
    have e1 := (takeWhile_dropWhile_split w1 (97 :: 114 :: 103 :: 40 :: (g ++ 41 :: x :: w2)) hw1
      (head_cons_not isWs_97)).2
    have e2 : dropPrefix (strOf "arg(") (97 :: 114 :: 103 :: 40 :: (g ++ 41 :: x :: w2)) =
        some (g ++ 41 :: x :: w2) := by rw [dropPrefix_iff, strOf_arg]; rfl
    have e3 := (scanName_iff (g ++ 41 :: x :: w2) 41 isWs_41 isIdChar_41 id (x :: w2)).2 ⟨g, rfl, hid⟩
    have e4 := (scanTail_iff (x :: w2)).2 ⟨x, w2, rfl, hw2⟩
    unfold matchArg
    simp only [e1, e2, e3, e4, if_true]

/-- the attack scanner accepts exactly the lines `\s*att\(\s*ID\s*,\s*ID\s*\)x\s*` (any `x`) -/
theorem matchAtt_nf (l a b : Str) : matchAtt l = some (a, b) ↔ ∃ g1 g2 x, StrictAtt l g1 g2 x a b := by
  constructor
  · intro h
    unfold matchAtt at h
    have hl := (List.takeWhile_append_dropWhile (p := isWs) (l := l)).symm
    generalize l.dropWhile isWs = l1 at h hl
    cases hdp : dropPrefix (strOf "att(") l1 with
    | none => simp [hdp] at h
    | some r =>
      simp only [hdp] at h
      rw [dropPrefix_iff, strOf_att] at hdp
      cases hs : scanName r 44 with
      | none => simp [hs] at h
      | some q =>
        obtain ⟨a', r2⟩ := q
        simp only [hs] at h
        cases hs2 : scanName r2 41 with
        | none => simp [hs2] at h
        | some q2 =>
          obtain ⟨b', rest⟩ := q2
          simp only [hs2] at h
          by_cases ht : scanTail rest = true
          · simp only [ht, if_true, Option.some.injEq, Prod.mk.injEq] at h
            obtain ⟨rfl, rfl⟩ := h
            obtain ⟨g1, rfl, hg1⟩ := (scanName_iff r 44 isWs_44 isIdChar_44 _ _).1 hs
            obtain ⟨g2, rfl, hg2⟩ := (scanName_iff r2 41 isWs_41 isIdChar_41 _ _).1 hs2
            obtain ⟨x, w2, rfl, hw2⟩ := (scanTail_iff rest).1 ht
            subst hdp
            exact ⟨g1, g2, x, l.takeWhile isWs, w2, hl, List.all_takeWhile, hg1, hg2, hw2⟩
          · simp [ht] at h
  · rintro ⟨g1, g2, x, w1, w2, rfl, hw1, ha, hb, hw2⟩
    have e1 := (takeWhile_dropWhile_split w1
      (97 :: 116 :: 116 :: 40 :: (g1 ++ 44 :: (g2 ++ 41 :: x :: w2))) hw1 (head_cons_not isWs_97)).2
    have e2 : dropPrefix (strOf "att(") (97 :: 116 :: 116 :: 40 :: (g1 ++ 44 :: (g2 ++ 41 :: x :: w2))) =
        some (g1 ++ 44 :: (g2 ++ 41 :: x :: w2)) := by rw [dropPrefix_iff, strOf_att]; rfl
    have e3 := (scanName_iff (g1 ++ 44 :: (g2 ++ 41 :: x :: w2)) 44 isWs_44 isIdChar_44 a
      (g2 ++ 41 :: x :: w2)).2 ⟨g1, rfl, ha⟩
    have e3' := (scanName_iff (g2 ++ 41 :: x :: w2) 41 isWs_41 isIdChar_41 b (x :: w2)).2 ⟨g2, rfl, hb⟩
    have e4 := (scanTail_iff (x :: w2)).2 ⟨x, w2, rfl, hw2⟩
    unfold matchAtt
    simp only [e1, e2, e3, e3', e4, if_true]

/-! ## uniqueness of the decompositions -/

theorem StrictArg.unique {l g g' : Str} {x x' : Nat} {id id' : Str}
    (h : StrictArg l g x id) (h' : StrictArg l g' x' id') : g = g' ∧ x = x' ∧ id = id' := by
  obtain ⟨w1, w2, rfl, hw1, hid, hw2⟩ := h
  obtain ⟨w1', w2', e, hw1', hid', hw2'⟩ := h'
  have e1 := (split_unique hw1 hw1' (head_cons_not isWs_97) (head_cons_not isWs_97) e).2
  simp only [List.cons.injEq, true_and] at e1
  have hp : ((fun c => c != 41) 41) = false := by decide
  have e2 := split_unique (hid.all_ne 41 isWs_41 isIdChar_41) (hid'.all_ne 41 isWs_41 isIdChar_41)
    (head_cons_not hp) (head_cons_not hp) e1
  obtain ⟨rfl, e3⟩ := e2
  simp only [List.cons.injEq, true_and] at e3
  exact ⟨rfl, e3.1, hid.trim.symm.trans hid'.trim⟩

theorem StrictAtt.unique {l g1 g2 g1' g2' : Str} {x x' : Nat} {a b a' b' : Str}
    (h : StrictAtt l g1 g2 x a b) (h' : StrictAtt l g1' g2' x' a' b') :
    g1 = g1' ∧ g2 = g2' ∧ x = x' ∧ a = a' ∧ b = b' := by
  obtain ⟨w1, w2, rfl, hw1, ha, hb, hw2⟩ := h
  obtain ⟨w1', w2', e, hw1', ha', hb', hw2'⟩ := h'
  have e1 := (split_unique hw1 hw1' (head_cons_not isWs_97) (head_cons_not isWs_97) e).2
  simp only [List.cons.injEq, true_and] at e1
  have hp : ((fun c => c != 44) 44) = false := by decide
  have e2 := split_unique (ha.all_ne 44 isWs_44 isIdChar_44) (ha'.all_ne 44 isWs_44 isIdChar_44)
    (head_cons_not hp) (head_cons_not hp) e1
  obtain ⟨rfl, e3⟩ := e2
  simp only [List.cons.injEq, true_and] at e3
  have hq : ((fun c => c != 41) 41) = false := by decide
  have e4 := split_unique (hb.all_ne 41 isWs_41 isIdChar_41) (hb'.all_ne 41 isWs_41 isIdChar_41)
    (head_cons_not hq) (head_cons_not hq) e3
  obtain ⟨rfl, e5⟩ := e4
  simp only [List.cons.injEq, true_and] at e5
  exact ⟨rfl, rfl, e5.1, ha.trim.symm.trans ha'.trim, hb.trim.symm.trans hb'.trim⟩

/-- the character matched by `.` belongs to the line -/
theorem StrictArg.dot_mem {l g : Str} {x : Nat} {id : Str} (h : StrictArg l g x id) : x ∈ l := by
  obtain ⟨w1, w2, rfl, _⟩ := h; simp

theorem StrictAtt.dot_mem {l g1 g2 : Str} {x : Nat} {a b : Str} (h : StrictAtt l g1 g2 x a b) :
    x ∈ l := by
  obtain ⟨w1, w2, rfl, _⟩ := h; simp

/-! ## the scanners implement the strict patterns -/

/-- the strict argument pattern has exactly one group -/
theorem argLineName_groups {l : Str} {gs : List Str} (h : MatchesG Gen.argLineName l gs) :
    ∃ g, gs = [g] := by
  obtain ⟨g, _, _, rfl, _⟩ := (argLineName_nf l gs).1 h; exact ⟨g, rfl⟩

/-- the strict attack pattern has exactly two groups -/
theorem attLineNames_groups {l : Str} {gs : List Str} (h : MatchesG Gen.attLineNames l gs) :
    ∃ g1 g2, gs = [g1, g2] := by
  obtain ⟨g1, g2, _, _, _, rfl, _⟩ := (attLineNames_nf l gs).1 h; exact ⟨g1, g2, rfl⟩

theorem groupsFlat_patterns :
    GroupsFlat Gen.argLine = true ∧ GroupsFlat Gen.argLineName = true ∧
    GroupsFlat Gen.attLine = true ∧ GroupsFlat Gen.attLineNames = true := by decide

theorem numGroups_patterns :
    numGroups Gen.argLine = 0 ∧ numGroups Gen.argLineName = 1 ∧
    numGroups Gen.attLine = 0 ∧ numGroups Gen.attLineNames = 2 := by decide

/-- **uniqueness of the capture** of `ARG_LINE_ARG_NAME_PATTERN`: whatever the disambiguation
strategy of the regex engine (leftmost-first for the regex crate), the group is the same -/
theorem argLineName_capture_unique (l g g' : Str)
    (h : MatchesG Gen.argLineName l [g]) (h' : MatchesG Gen.argLineName l [g']) : g = g' := by
  obtain ⟨g1, x, id, e, hs, _⟩ := (argLineName_nf l _).1 h
  obtain ⟨g1', x', id', e', hs', _⟩ := (argLineName_nf l _).1 h'
  cases e; cases e'
  exact (hs.unique hs').1

/-- **uniqueness of the captures** of `ATT_LINE_ARG_NAMES_PATTERN` -/
theorem attLineNames_capture_unique (l g1 g2 g1' g2' : Str)
    (h : MatchesG Gen.attLineNames l [g1, g2]) (h' : MatchesG Gen.attLineNames l [g1', g2']) :
    g1 = g1' ∧ g2 = g2' := by
  obtain ⟨k1, k2, x, a, b, e, hs, _⟩ := (attLineNames_nf l _).1 h
  obtain ⟨k1', k2', x', a', b', e', hs', _⟩ := (attLineNames_nf l _).1 h'
  cases e; cases e'
  exact ⟨(hs.unique hs').1, (hs.unique hs').2.1⟩

/-- regex ⟹ scanner: no hypothesis on the line -/
theorem matchArg_of_matchesG (l g : Str) (h : MatchesG Gen.argLineName l [g]) :
    matchArg l = some (trimWs g) := by
  obtain ⟨g1, x, id, e, hs, _⟩ := (argLineName_nf l _).1 h
  cases e
  obtain ⟨w1, w2, rfl, hw1, hid, hw2⟩ := hs
  rw [hid.trim]
  exact (matchArg_nf _ _).2 ⟨g, x, w1, w2, rfl, hw1, hid, hw2⟩

/-- scanner ⟹ regex: the line must not contain a line feed (`.` does not match `\n`, the scanner's
`scanTail` accepts any code point) -/
theorem matchesG_of_matchArg (l lab : Str) (hnl : ∀ c ∈ l, c ≠ 10) (h : matchArg l = some lab) :
    ∃ g, MatchesG Gen.argLineName l [g] ∧ lab = trimWs g := by
  obtain ⟨g, x, hs⟩ := (matchArg_nf l lab).1 h
  refine ⟨g, (argLineName_nf l _).2 ⟨g, x, lab, rfl, hs, hnl x hs.dot_mem⟩, ?_⟩
  obtain ⟨w1, w2, rfl, hw1, hid, hw2⟩ := hs
  exact hid.trim.symm

/-- **`matchArg` implements `ARG_LINE_ARG_NAME_PATTERN` + `captured_arg`** on lines without `\n` -/
theorem matchArg_iff (l lab : Str) (hnl : ∀ c ∈ l, c ≠ 10) :
    matchArg l = some lab ↔ ∃ g, MatchesG Gen.argLineName l [g] ∧ lab = trimWs g :=
  ⟨matchesG_of_matchArg l lab hnl, fun ⟨g, h, e⟩ => e ▸ matchArg_of_matchesG l g h⟩

theorem matchAtt_of_matchesG (l g1 g2 : Str) (h : MatchesG Gen.attLineNames l [g1, g2]) :
    matchAtt l = some (trimWs g1, trimWs g2) := by
  obtain ⟨k1, k2, x, a, b, e, hs, _⟩ := (attLineNames_nf l _).1 h
  cases e
  obtain ⟨w1, w2, rfl, hw1, ha, hb, hw2⟩ := hs
  rw [ha.trim, hb.trim]
  exact (matchAtt_nf _ _ _).2 ⟨g1, g2, x, w1, w2, rfl, hw1, ha, hb, hw2⟩

theorem matchesG_of_matchAtt (l a b : Str) (hnl : ∀ c ∈ l, c ≠ 10) (h : matchAtt l = some (a, b)) :
    ∃ g1 g2, MatchesG Gen.attLineNames l [g1, g2] ∧ a = trimWs g1 ∧ b = trimWs g2 := by
  obtain ⟨g1, g2, x, hs⟩ := (matchAtt_nf l a b).1 h
  refine ⟨g1, g2, (attLineNames_nf l _).2 ⟨g1, g2, x, a, b, rfl, hs, hnl x hs.dot_mem⟩, ?_⟩
  obtain ⟨w1, w2, rfl, hw1, ha, hb, hw2⟩ := hs
  exact ⟨ha.trim.symm, hb.trim.symm⟩

/-- **`matchAtt` implements `ATT_LINE_ARG_NAMES_PATTERN` + `captured_arg`** on lines without `\n` -/
theorem matchAtt_iff (l a b : Str) (hnl : ∀ c ∈ l, c ≠ 10) :
    matchAtt l = some (a, b) ↔
      ∃ g1 g2, MatchesG Gen.attLineNames l [g1, g2] ∧ a = trimWs g1 ∧ b = trimWs g2 :=
  ⟨matchesG_of_matchAtt l a b hnl, fun ⟨g1, g2, h, ea, eb⟩ => ea ▸ eb ▸ matchAtt_of_matchesG l g1 g2 h⟩

theorem matchArg_eq_none_iff (l : Str) (hnl : ∀ c ∈ l, c ≠ 10) :
    matchArg l = none ↔ ¬ Matches Gen.argLineName l := by
  constructor
  · intro h hm
    obtain ⟨gs, hg⟩ := hm.exists_groups
    obtain ⟨g, rfl⟩ := argLineName_groups hg
    rw [matchArg_of_matchesG l g hg] at h; cases h
  · intro h
    cases hm : matchArg l with
    | none => rfl
    | some lab =>
      obtain ⟨g, hg, _⟩ := matchesG_of_matchArg l lab hnl hm
      exact absurd hg.matches h

theorem matchAtt_eq_none_iff (l : Str) (hnl : ∀ c ∈ l, c ≠ 10) :
    matchAtt l = none ↔ ¬ Matches Gen.attLineNames l := by
  constructor
  · intro h hm
    obtain ⟨gs, hg⟩ := hm.exists_groups
    obtain ⟨g1, g2, rfl⟩ := attLineNames_groups hg
    rw [matchAtt_of_matchesG l g1 g2 hg] at h; cases h
  · intro h
    cases hm : matchAtt l with
    | none => rfl
    | some q =>
      obtain ⟨a, b⟩ := q
      obtain ⟨g1, g2, hg, _⟩ := matchesG_of_matchAtt l a b hnl hm
      exact absurd hg.matches h

/-! ### the hypothesis "no line feed" is necessary

On `arg(a)` followed by a line feed the scanner answers `a`, the pattern does not match (the `.`
would have to match `\n`).  Such a line is never produced by `BufRead::lines` (`Readers.lines`
splits at every `\n`). -/

theorem lf_disagreement :
    matchArg [97, 114, 103, 40, 97, 41, 10] = some [97] ∧
    ¬ Matches Gen.argLineName [97, 114, 103, 40, 97, 41, 10] ∧
    ¬ Matches Gen.argLine [97, 114, 103, 40, 97, 41, 10] := by
  have hs : StrictArg [97, 114, 103, 40, 97, 41, 10] [97] 10 [97] :=
    ⟨[], [], rfl, rfl, ⟨[], 97, [], [], rfl, rfl, by decide, rfl, rfl, rfl⟩, rfl⟩
  have hno : ¬ Matches Gen.argLineName [97, 114, 103, 40, 97, 41, 10] := by
    intro hm
    obtain ⟨gs, hg⟩ := hm.exists_groups
    obtain ⟨g, x, id, _, hs', hx⟩ := (argLineName_nf _ _).1 hg
    exact hx (hs'.unique hs).2.1
  refine ⟨(matchArg_nf _ _).2 ⟨_, _, hs⟩, hno, ?_⟩
  intro hm
  obtain ⟨w1, m, x, w2, e, hw1, _, hm', hx, _⟩ := (argLine_nf _).1 hm
  have e1 := (split_unique (u := []) (r := [97, 114, 103, 40, 97, 41, 10]) rfl hw1
    (head_cons_not isWs_97) (head_cons_not isWs_97) e).2
  simp only [List.cons.injEq, true_and] at e1
  have hp : ((fun c => c != 41) 41) = false := by decide
  have e2 := (split_unique (p := fun c => c != 41) (u := [97]) (r := [41, 10]) (by decide) hm'
    (head_cons_not hp) (head_cons_not hp) e1).2
  simp only [List.cons.injEq, true_and] at e2
  exact hx e2.1.symm

/-- in general the scanner accepts the lines of the pattern and those where `.` faces a line feed -/
theorem matchArg_iff_general (l lab : Str) :
    matchArg l = some lab ↔
      (∃ g, MatchesG Gen.argLineName l [g] ∧ lab = trimWs g) ∨ (∃ g, StrictArg l g 10 lab) := by
  constructor
  · intro h
    obtain ⟨g, x, hs⟩ := (matchArg_nf l lab).1 h
    by_cases hx : x = 10
    · subst hx; exact .inr ⟨g, hs⟩
    · refine .inl ⟨g, (argLineName_nf l _).2 ⟨g, x, lab, rfl, hs, hx⟩, ?_⟩
      obtain ⟨w1, w2, rfl, hw1, hid, hw2⟩ := hs
      exact hid.trim.symm
  · rintro (⟨g, h, rfl⟩ | ⟨g, hs⟩)
    · exact matchArg_of_matchesG l g h
    · exact (matchArg_nf _ _).2 ⟨g, 10, hs⟩

/-! ## strict ⊆ loose, exclusivity, blank lines -/

theorem strictArg_loose {l g : Str} {x : Nat} {id : Str} (h : StrictArg l g x id) (hx : x ≠ 10) :
    LooseArg l := by
  obtain ⟨w1, w2, rfl, hw1, hid, hw2⟩ := h
  exact ⟨w1, g, x, w2, rfl, hw1, hid.ne_nil, hid.all_ne 41 isWs_41 isIdChar_41, hx, hw2⟩

theorem strictAtt_loose {l g1 g2 : Str} {x : Nat} {a b : Str} (h : StrictAtt l g1 g2 x a b)
    (hx : x ≠ 10) : LooseAtt l := by
  obtain ⟨w1, w2, rfl, hw1, ha, hb, hw2⟩ := h
  exact ⟨w1, g1, g2, x, w2, rfl, hw1, ha.ne_nil, ha.all_ne 44 isWs_44 isIdChar_44, hb.ne_nil,
    hb.all_ne 41 isWs_41 isIdChar_41, hx, hw2⟩

/-- `ARG_LINE_ARG_NAME_PATTERN ⊆ ARG_LINE_PATTERN` (no hypothesis on the line) -/
theorem strict_sub_loose_arg (l : Str) (h : Matches Gen.argLineName l) : Matches Gen.argLine l := by
  obtain ⟨gs, hg⟩ := h.exists_groups
  obtain ⟨g, x, id, _, hs, hx⟩ := (argLineName_nf l gs).1 hg
  exact (argLine_nf l).2 (strictArg_loose hs hx)

/-- `ATT_LINE_ARG_NAMES_PATTERN ⊆ ATT_LINE_PATTERN` (no hypothesis on the line) -/
theorem strict_sub_loose_att (l : Str) (h : Matches Gen.attLineNames l) : Matches Gen.attLine l := by
  obtain ⟨gs, hg⟩ := h.exists_groups
  obtain ⟨g1, g2, x, a, b, _, hs, hx⟩ := (attLineNames_nf l gs).1 hg
  exact (attLine_nf l).2 (strictAtt_loose hs hx)

/-- no line matches both loose patterns (no hypothesis on the line) -/
theorem arg_att_exclusive (l : Str) : ¬ (Matches Gen.argLine l ∧ Matches Gen.attLine l) := by
  rintro ⟨ha, ht⟩
  obtain ⟨w1, m, x, w2, rfl, hw1, _⟩ := (argLine_nf l).1 ha
  obtain ⟨w1', m1, m2, x', w2', e, hw1', _⟩ := (attLine_nf _).1 ht
  have e1 := (split_unique hw1 hw1' (head_cons_not isWs_97) (head_cons_not isWs_97) e).2
  simp at e1

/-- a blank line matches none of the patterns (no hypothesis on the line) -/
theorem blank_matches_none (l : Str) (hb : l.all isWs = true) :
    ¬ Matches Gen.argLine l ∧ ¬ Matches Gen.attLine l := by
  have h97 : ∀ (w r : Str), l = w ++ 97 :: r → False := by
    rintro w r rfl
    simp only [List.all_append, List.all_cons, Bool.and_eq_true] at hb
    rw [isWs_97] at hb; exact absurd hb.2.1 (by decide)
  constructor
  · intro h
    obtain ⟨w1, m, x, w2, e, _⟩ := (argLine_nf l).1 h
    exact h97 _ _ e
  · intro h
    obtain ⟨w1, m1, m2, x, w2, e, _⟩ := (attLine_nf l).1 h
    exact h97 _ _ e

/-- both inclusions at once -/
theorem strict_sub_loose (l : Str) :
    (Matches Gen.argLineName l → Matches Gen.argLine l) ∧
    (Matches Gen.attLineNames l → Matches Gen.attLine l) :=
  ⟨strict_sub_loose_arg l, strict_sub_loose_att l⟩

/-! ## non-vacuity: the strict patterns do match, with the expected captures -/

/-- `  arg( a1 )._` : capture ` a1 `, label `a1` -/
theorem example_arg :
    MatchesG Gen.argLineName (strOf "  arg( a1 ). ") [strOf " a1 "] ∧
    matchArg (strOf "  arg( a1 ). ") = some (strOf "a1") := by
  have hs : StrictArg (strOf "  arg( a1 ). ") (strOf " a1 ") 46 (strOf "a1") :=
    ⟨[32, 32], [32], by decide, by decide,
      ⟨[32], 97, [49], [32], by decide, by decide, by decide, by decide, by decide, by decide⟩, by decide⟩
  exact ⟨(argLineName_nf _ _).2 ⟨_, 46, _, rfl, hs, by decide⟩, (matchArg_nf _ _).2 ⟨_, _, hs⟩⟩

/-- `att(a ,_b)x` : captures `a ` and ` _b` -/
theorem example_att :
    MatchesG Gen.attLineNames (strOf "att(a , _b)x") [strOf "a ", strOf " _b"] ∧
    matchAtt (strOf "att(a , _b)x") = some (strOf "a", strOf "_b") := by
  have hs : StrictAtt (strOf "att(a , _b)x") (strOf "a ") (strOf " _b") 120 (strOf "a") (strOf "_b") :=
    ⟨[], [], by decide, by decide,
      ⟨[], 97, [], [32], by decide, by decide, by decide, by decide, by decide, by decide⟩,
      ⟨[32], 95, [98], [], by decide, by decide, by decide, by decide, by decide, by decide⟩, by decide⟩
  exact ⟨(attLineNames_nf _ _).2 ⟨_, _, 120, _, _, rfl, hs, by decide⟩, (matchAtt_nf _ _ _).2 ⟨_, _, _, hs⟩⟩

/-! ## classification of the lines -/

/-- exactly one proposition of the list holds -/
def ExactlyOne : List Prop → Prop
  | [] => False
  | p :: ps => (p ∧ ∀ q ∈ ps, ¬ q) ∨ (¬ p ∧ ExactlyOne ps)

theorem exactlyOne_five (B NB A T LA LT : Prop) (hNB : NB ↔ ¬ B) (hAL : A → LA) (hTL : T → LT)
    (hex : ¬ (LA ∧ LT)) (hbl : B → ¬ LA ∧ ¬ LT) :
    ExactlyOne [B, A, T, (LA ∧ ¬ A) ∨ (LT ∧ ¬ T), NB ∧ ¬ LA ∧ ¬ LT] := by
  by_cases hB : B <;> by_cases hA : A <;> by_cases hT : T <;> by_cases hLA : LA <;>
    by_cases hLT : LT <;> simp_all [ExactlyOne]

/-- **Classification of a line (without line feed) by the four patterns, and what the reader
model does in each case.**

Rust (`AspartixReader::read`): blank → skipped; else `ARG_LINE_PATTERN` → (`ARG_LINE_ARG_NAME_PATTERN`
→ argument `trim(group 1)` | error "invalid argument name"); else `ATT_LINE_PATTERN` →
(`ATT_LINE_ARG_NAMES_PATTERN` → attack `(trim(group 1), trim(group 2))` | error "invalid argument
names"); else error "syntax error".  By `strict_sub_loose_*`, `arg_att_exclusive` and
`blank_matches_none` this is the five-way partition below, and the model takes the same branch
(the two error classes are both `.error "syntax error"` in the model). -/
theorem apx_line_classification (l : Str) (hnl : ∀ c ∈ l, c ≠ 10) (st : ApxSt) :
    ExactlyOne [
      l.all isWs = true,
      Matches Gen.argLineName l,
      Matches Gen.attLineNames l,
      (Matches Gen.argLine l ∧ ¬ Matches Gen.argLineName l) ∨
        (Matches Gen.attLine l ∧ ¬ Matches Gen.attLineNames l),
      l.all isWs = false ∧ ¬ Matches Gen.argLine l ∧ ¬ Matches Gen.attLine l ] ∧
    (l.all isWs = true → apxLine st (some l) = .ok st) ∧
    (Matches Gen.argLineName l →
      ∃ g, MatchesG Gen.argLineName l [g] ∧ l.all isWs = false ∧ matchArg l = some (trimWs g)) ∧
    (Matches Gen.attLineNames l →
      ∃ g1 g2, MatchesG Gen.attLineNames l [g1, g2] ∧ l.all isWs = false ∧ matchArg l = none ∧
        matchAtt l = some (trimWs g1, trimWs g2)) ∧
    ((Matches Gen.argLine l ∧ ¬ Matches Gen.argLineName l) ∨
        (Matches Gen.attLine l ∧ ¬ Matches Gen.attLineNames l) →
      l.all isWs = false ∧ matchArg l = none ∧ matchAtt l = none ∧
        apxLine st (some l) = .error "syntax error") ∧
    (l.all isWs = false ∧ ¬ Matches Gen.argLine l ∧ ¬ Matches Gen.attLine l →
      matchArg l = none ∧ matchAtt l = none ∧ apxLine st (some l) = .error "syntax error") := by
  have hAL := strict_sub_loose_arg l
  have hTL := strict_sub_loose_att l
  have hex := arg_att_exclusive l
  have hbl := blank_matches_none l
  have hnb : ∀ {p : Prop}, (l.all isWs = true → ¬ p) → p → l.all isWs = false := by
    intro p h hp
    cases hb : l.all isWs with
    | false => rfl
    | true => exact absurd hp (h hb)
  have hAn := matchArg_eq_none_iff l hnl
  have hTn := matchAtt_eq_none_iff l hnl
  have herr : l.all isWs = false → matchArg l = none → matchAtt l = none →
      apxLine st (some l) = .error "syntax error" := by
    intro h1 h2 h3; simp [apxLine, h1, h2, h3]
  refine ⟨?_, ?_, ?_, ?_, ?_, ?_⟩
  · exact exactlyOne_five _ _ _ _ _ _ (by simp) hAL hTL hex hbl
  · intro hb; simp [apxLine, hb]
  · intro hA
    obtain ⟨gs, hg⟩ := hA.exists_groups
    obtain ⟨g, rfl⟩ := argLineName_groups hg
    exact ⟨g, hg, hnb (fun hb => (hbl hb).1) (hAL hA), matchArg_of_matchesG l g hg⟩
  · intro hT
    obtain ⟨gs, hg⟩ := hT.exists_groups
    obtain ⟨g1, g2, rfl⟩ := attLineNames_groups hg
    exact ⟨g1, g2, hg, hnb (fun hb => (hbl hb).2) (hTL hT),
      hAn.2 (fun hA => hex ⟨hAL hA, hTL hT⟩), matchAtt_of_matchesG l g1 g2 hg⟩
  · intro h
    have h1 : l.all isWs = false := by
      rcases h with h | h
      · exact hnb (fun hb => (hbl hb).1) h.1
      · exact hnb (fun hb => (hbl hb).2) h.1
    have h2 : matchArg l = none := by
      rcases h with h | h
      · exact hAn.2 h.2
      · exact hAn.2 (fun hA => hex ⟨hAL hA, h.1⟩)
    have h3 : matchAtt l = none := by
      rcases h with h | h
      · exact hTn.2 (fun hT => hex ⟨h.1, hTL hT⟩)
      · exact hTn.2 h.2
    exact ⟨h1, h2, h3, herr h1 h2 h3⟩
  · rintro ⟨h1, hA, hT⟩
    have h2 := hAn.2 (fun h => hA (hAL h))
    have h3 := hTn.2 (fun h => hT (hTL h))
    exact ⟨h2, h3, herr h1 h2 h3⟩

end Crusta.RxApx
