"""Regenerates lean/Crusta/Gen/* from /repo: data the model depends on (constants, tables)."""
import os
import re


def write_if_changed(path, content):
    if os.path.exists(path) and open(path).read() == content:
        return False
    os.makedirs(os.path.dirname(path), exist_ok=True)
    open(path, "w").write(content)
    return True


def regenerate(repo, gen_dir):
    src = open(os.path.join(repo, "src/encodings/hybrid_complete_constraints_encoder.rs")).read()
    m = re.search(r"const DEFENDER_SETS_PROD_THRESHOLD: usize = ([^;]+);", src)
    if not m:
        raise RuntimeError("DEFENDER_SETS_PROD_THRESHOLD not found")
    expr = m.group(1).strip()
    mm = re.fullmatch(r"1 << (\d+)", expr)
    if mm:
        thr = 1 << int(mm.group(1))
    elif re.fullmatch(r"\d+", expr):
        thr = int(expr)
    else:
        raise RuntimeError("cannot evaluate threshold expression %r" % expr)
    content = "/-! Regenerated from /repo by tools/gen_from_source.py on every run. Do not edit. -/\n\nnamespace Crusta.Gen\n\n/-- `DEFENDER_SETS_PROD_THRESHOLD` in `encodings/hybrid_complete_constraints_encoder.rs` -/\ndef hybridThreshold : Nat := %d\n\nend Crusta.Gen\n" % thr
    ch = write_if_changed(os.path.join(gen_dir, "Constants.lean"), content)
    ch2 = gen_unicode(repo, gen_dir)
    ch3 = gen_apx_patterns(repo, gen_dir)
    ch4 = gen_problem_grammar(repo, gen_dir)
    ch5 = gen_sat_tokens(repo, gen_dir)
    ch6 = gen_writer_formats(repo, gen_dir)
    ch7 = gen_iccma_tokens(repo, gen_dir)
    ch8 = gen_dispatch(repo, gen_dir)
    ch9 = gen_wrapper(repo, gen_dir)
    return ch or ch2 or ch3 or ch4 or ch5 or ch6 or ch7 or ch8 or ch9


def parse_char(tok):
    tok = tok.strip()
    assert tok[0] == "'" and tok[-1] == "'", tok
    body = tok[1:-1]
    if body.startswith("\\u{"):
        return int(body[3:-1], 16)
    esc = {"\\t": 9, "\\n": 10, "\\r": 13, "\\\\": 92, "\\'": 39, "\\0": 0}
    if body in esc:
        return esc[body]
    assert len(body) == 1, body
    return ord(body)


def parse_table(path, name):
    src = open(path, encoding="utf-8").read()
    m = re.search(r"pub const %s: &'static \[\(char, char\)\] = &\[(.*?)\];" % name, src, re.S)
    if not m:
        raise RuntimeError("table %s not found in %s" % (name, path))
    ranges = []
    for a, b in re.findall(r"\(('(?:\\.[^']*|[^'\\])')\s*,\s*('(?:\\.[^']*|[^'\\])')\)", m.group(1)):
        ranges.append((parse_char(a), parse_char(b)))
    if not ranges:
        raise RuntimeError("empty table %s" % name)
    return ranges


def gen_unicode(repo, gen_dir):
    lock = open(os.path.join(repo, "Cargo.lock")).read()
    m = re.search(r'name = "regex-syntax"\nversion = "([^"]+)"', lock)
    if not m:
        raise RuntimeError("regex-syntax not in Cargo.lock")
    ver = m.group(1)
    import glob
    cands = glob.glob(os.path.expanduser("~/.cargo/registry/src/*/regex-syntax-%s/src/unicode_tables" % ver))
    if not cands:
        raise RuntimeError("vendored regex-syntax-%s not found" % ver)
    d = cands[0]
    ws = parse_table(os.path.join(d, "perl_space.rs"), "WHITE_SPACE")
    dn = parse_table(os.path.join(d, "perl_decimal.rs"), "DECIMAL_NUMBER")

    def fmt(rs):
        return "[" + ", ".join("(%d, %d)" % r for r in rs) + "]"
    content = ("/-! Regenerated from the vendored regex-syntax-%s tables (the version named by /repo/Cargo.lock)\n"
               "by tools/gen_from_source.py on every run. Do not edit. -/\n\nnamespace Crusta.Gen\n\n"
               "/-- `\\s` of the regex crate = Unicode White_Space (also `char::is_whitespace`) -/\n"
               "def whiteSpaceRanges : List (Nat × Nat) := %s\n\n"
               "/-- `\\d` of the regex crate = Unicode Decimal_Number -/\n"
               "def decimalRanges : List (Nat × Nat) := %s\n\nend Crusta.Gen\n") % (ver, fmt(ws), fmt(dn))
    return write_if_changed(os.path.join(gen_dir, "Unicode.lean"), content)


# ----------------------------------------------------------------------------- regex translator (Aspartix reader)

class RxParseError(Exception):
    pass


def parse_regex(pat):
    """Translates the subset of regex syntax used by src/io/aspartix_reader.rs into the Lean AST of Crusta.Rx.
    The pattern must be anchored (^ ... $); anything outside the subset raises (the tie is then broken)."""
    if not (pat.startswith("^") and pat.endswith("$")):
        raise RxParseError("pattern is not anchored at both ends: %r" % pat)
    body = pat[1:-1]
    pos = 0

    def atom_of_escape(c):
        if c == "s":
            return "Atom.ws"
        if c == "d":
            return "Atom.digit"
        if c in "()[].,\\-^$*+?{}|":
            return "Atom.ch %d" % ord(c)
        raise RxParseError("unsupported escape \\%s in %r" % (c, pat))

    def parse_class():
        nonlocal pos
        # after '['
        neg = False
        if body[pos] == "^":
            neg = True
            pos += 1
        items = []
        first = True
        while True:
            if pos >= len(body):
                raise RxParseError("unterminated bracket in %r" % pat)
            c = body[pos]
            if c == "]" and not first:
                pos += 1
                break
            first = False
            if body.startswith("[:alpha:]", pos):
                items.append("Atom.alpha")
                pos += len("[:alpha:]")
            elif c == "[":
                raise RxParseError("unsupported nested bracket in %r" % pat)
            elif c == "\\":
                items.append(atom_of_escape(body[pos + 1]))
                pos += 2
            elif c == "-" and body[pos + 1] != "]":
                raise RxParseError("ranges are not supported in %r" % pat)
            else:
                items.append("Atom.ch %d" % ord(c))
                pos += 1
        return ".cls %s [%s]" % ("true" if neg else "false", ", ".join(items))

    def parse_seq(depth):
        nonlocal pos
        parts = []
        while pos < len(body):
            c = body[pos]
            if c == ")":
                if depth == 0:
                    raise RxParseError("unbalanced ) in %r" % pat)
                break
            if c == "(":
                if body.startswith("(?", pos):
                    raise RxParseError("non-capturing / flag groups are not supported in %r" % pat)
                pos += 1
                inner = parse_seq(depth + 1)
                if pos >= len(body) or body[pos] != ")":
                    raise RxParseError("unbalanced ( in %r" % pat)
                pos += 1
                cur = ".grp (%s)" % inner
            elif c == "[":
                pos += 1
                cur = parse_class()
            elif c == "\\":
                a = atom_of_escape(body[pos + 1])
                pos += 2
                cur = (".chr %s" % a.split(" ")[1]) if a.startswith("Atom.ch") else (".cls false [%s]" % a)
            elif c == ".":
                pos += 1
                cur = ".anyNoNl"
            elif c in "*+?{}|^$":
                raise RxParseError("unsupported operator %r at %d in %r" % (c, pos, pat))
            else:
                pos += 1
                cur = ".chr %d" % ord(c)
            if pos < len(body) and body[pos] in "*+":
                op = body[pos]
                pos += 1
                if pos < len(body) and body[pos] in "?+*":
                    raise RxParseError("lazy / possessive / stacked quantifiers are not supported in %r" % pat)
                cur = ".%s (%s)" % ("star" if op == "*" else "plus", cur)
            parts.append(cur)
        if not parts:
            return ".eps"
        out = parts[-1]
        for p_ in reversed(parts[:-1]):
            out = ".cat (%s) (%s)" % (p_, out)
        return out

    r = parse_seq(0)
    if pos != len(body):
        raise RxParseError("trailing input in %r" % pat)
    return r


def gen_apx_patterns(repo, gen_dir):
    src = open(os.path.join(repo, "src/io/aspartix_reader.rs")).read()
    consts = dict(re.findall(r'const (\w+): &str = r"([^"]*)";', src))
    pats = {}
    for name, body in re.findall(r'static ref (\w+): Regex\s*=\s*Regex::new\((.*?)\)\s*\.unwrap\(\);', src, re.S):
        body = body.strip()
        m = re.fullmatch(r'r"([^"]*)"', body)
        if m:
            pats[name] = m.group(1)
            continue
        m = re.fullmatch(r'&format!\(\s*r"([^"]*)"\s*,\s*(.*?),?\s*\)', body, re.S)
        if not m:
            raise RuntimeError("cannot read the definition of %s in aspartix_reader.rs" % name)
        fmt = m.group(1)
        args = [a.strip() for a in m.group(2).split(",") if a.strip()]
        for a in args:
            if a not in consts:
                raise RuntimeError("unknown constant %s in the definition of %s" % (a, name))
            if "{}" not in fmt:
                raise RuntimeError("more arguments than placeholders in %s" % name)
            fmt = fmt.replace("{}", consts[a], 1)
        if "{}" in fmt:
            raise RuntimeError("more placeholders than arguments in %s" % name)
        pats[name] = fmt
    want = {"ARG_LINE_PATTERN": "argLine", "ARG_LINE_ARG_NAME_PATTERN": "argLineName",
            "ATT_LINE_PATTERN": "attLine", "ATT_LINE_ARG_NAMES_PATTERN": "attLineNames"}
    if set(pats) != set(want):
        raise RuntimeError("the set of patterns of aspartix_reader.rs changed: %s" % sorted(pats))
    out = ["import Crusta.Model.Rx\n",
           "/-! Regenerated from /repo/src/io/aspartix_reader.rs by tools/gen_from_source.py on every run (the four regular\n"
           "expressions, `format!` placeholders expanded, translated into the AST of `Crusta.Rx`). Do not edit. -/\n",
           "namespace Crusta.Gen\nopen Crusta.Rx\n"]
    for k in ("ARG_LINE_PATTERN", "ARG_LINE_ARG_NAME_PATTERN", "ATT_LINE_PATTERN", "ATT_LINE_ARG_NAMES_PATTERN"):
        out.append("/-- `%s` = `%s` -/\ndef %s : Rx :=\n  %s\n" % (k, pats[k].replace("-/", "- /"), want[k], parse_regex(pats[k])))
    out.append("end Crusta.Gen\n")
    return write_if_changed(os.path.join(gen_dir, "ApxPatterns.lean"), "\n".join(out))


# ----------------------------------------------------------------------------- problem grammar (aa/problem.rs)

def gen_problem_grammar(repo, gen_dir):
    """the enum variants (in declaration order = the order of `--problems`) and the match arms of the two `TryFrom<&str>`
    implementations, as data: Props/C05 proves that the Lean grammar is exactly this table"""
    src = open(os.path.join(repo, "src/aa/problem.rs")).read()

    def variants(name):
        m = re.search(r"pub enum %s \{(.*?)\n\}" % name, src, re.S)
        if not m:
            raise RuntimeError("enum %s not found in aa/problem.rs" % name)
        body = re.sub(r"///[^\n]*", "", m.group(1))
        vs = [v.strip() for v in body.split(",") if v.strip()]
        if not vs or not all(re.fullmatch(r"[A-Z]+", v) for v in vs):
            raise RuntimeError("unexpected variants of %s: %r" % (name, vs))
        return vs

    def arms(name):
        m = re.search(r"impl TryFrom<&str> for %s \{(.*?)\n\}" % name, src, re.S)
        if not m:
            raise RuntimeError("TryFrom<&str> for %s not found" % name)
        body = m.group(1)
        if "to_ascii_lowercase()" not in body:
            raise RuntimeError("%s::try_from no longer compares the ASCII-lowercased string" % name)
        out = re.findall(r'"([^"]*)"\s*=>\s*Ok\(%s::(\w+)\)' % name, body)
        other = re.findall(r"\n\s*([^\s\"_][^\n]*?)\s*=>", body)
        if not out or other:
            raise RuntimeError("unexpected match arms in %s::try_from: %r" % (name, other))
        return out
    if "problem.find('-')" not in src:
        raise RuntimeError("read_problem_string no longer splits at the first hyphen")

    def codes(t):
        return "[" + ", ".join(str(ord(c)) for c in t) + "]"

    def table(rows):
        return "[" + ", ".join('(%s, "%s")' % (codes(k), v) for k, v in rows) + "]"
    content = ("/-! Regenerated from /repo/src/aa/problem.rs by tools/gen_from_source.py on every run. Do not edit. -/\n\n"
               "namespace Crusta.Gen\n\n"
               "/-- variants of `enum Semantics`, in declaration order -/\n"
               "def semanticsVariants : List String := [%s]\n\n"
               "/-- variants of `enum Query`, in declaration order -/\n"
               "def queryVariants : List String := [%s]\n\n"
               "/-- match arms of `Semantics::try_from` (the ASCII-lowercased string, as code points, and the variant) -/\n"
               "def semanticsArms : List (List Nat × String) := %s\n\n"
               "/-- match arms of `Query::try_from` -/\n"
               "def queryArms : List (List Nat × String) := %s\n\nend Crusta.Gen\n") % (
        ", ".join('"%s"' % v for v in variants("Semantics")), ", ".join('"%s"' % v for v in variants("Query")),
        table(arms("Semantics")), table(arms("Query")))
    return write_if_changed(os.path.join(gen_dir, "Problem.lean"), content)


# ----------------------------------------------------------------------------- tokens of the DIMACS exchange (sat/buffered_sat_solver.rs)

def gen_sat_tokens(repo, gen_dir):
    """the literal tokens of the reply parser and of the DIMACS header, in the order of the if-chain;
    Props/C16 proves that the Lean reply parser / renderer use exactly these"""
    src = open(os.path.join(repo, "src/sat/buffered_sat_solver.rs")).read()
    m = re.search(r"fn solve_under_assumptions\(.*?\n    \}\n", src, re.S)
    if not m:
        raise RuntimeError("solve_under_assumptions not found in buffered_sat_solver.rs")
    body = m.group(0)
    status = re.findall(r'line == "([^"]*)" \{\s*set_status\((true|false)\)', body)
    if [b for _, b in status] != ["true", "false"]:
        raise RuntimeError("unexpected status-line tests in the reply parser: %r" % status)
    vpre = re.findall(r'else if line\.starts_with\("([^"]*)"\) \{\s*assignment_line_seen = true', body)
    if len(vpre) != 1 or "split_ascii_whitespace().skip(1)" not in body or "parse::<isize>()" not in body:
        raise RuntimeError("unexpected value-line handling in the reply parser")
    tail = re.search(r'else if !line\.starts_with\("([^"]*)"\) && line != "([^"]*)" && line != "([^"]*)" && !line\.is_empty\(\) \{\s*panic!', body)
    if not tail:
        raise RuntimeError("unexpected final test (comment / bare lines) in the reply parser")
    hdr = re.search(r'format!\(\s*"([^"{]*)\{\} \{\}\\n"', body)
    if not hdr:
        raise RuntimeError("unexpected DIMACS header format")

    def codes(t):
        return "[" + ", ".join(str(ord(c)) for c in t) + "]"
    content = ("/-! Regenerated from /repo/src/sat/buffered_sat_solver.rs by tools/gen_from_source.py on every run. Do not edit. -/\n\n"
               "namespace Crusta.Gen\n\n"
               "/-- the two status lines, satisfiable first -/\ndef statusLines : List (List Nat) := [%s, %s]\n\n"
               "/-- prefix of a value line -/\ndef valuePrefix : List Nat := %s\n\n"
               "/-- prefix of a comment line, and the two bare lines that are skipped -/\n"
               "def commentPrefix : List Nat := %s\ndef bareLines : List (List Nat) := [%s, %s]\n\n"
               "/-- the DIMACS header up to the variable count -/\ndef dimacsHeaderPrefix : List Nat := %s\n\nend Crusta.Gen\n") % (
        codes(status[0][0]), codes(status[1][0]), codes(vpre[0]), codes(tail.group(1)), codes(tail.group(2)), codes(tail.group(3)), codes(hdr.group(1)))
    return write_if_changed(os.path.join(gen_dir, "SatTokens.lean"), content)


# ----------------------------------------------------------------------------- format strings of the writers (io/*.rs)

def gen_writer_formats(repo, gen_dir):
    """the format strings of the response / framework writers, in source order (test modules excluded);
    Props/C14 proves that the Lean writer model produces exactly these formats"""
    def fmts(path, fn_name):
        src = open(os.path.join(repo, path)).read().split("#[cfg(test)]")[0]
        m = re.search(r"fn %s\b[^;]*?\{.*?\n    \}\n" % fn_name, src, re.S) if not fn_name.startswith("pub") else \
            re.search(r"%s\b.*?\n\}\n" % re.escape(fn_name), src, re.S)
        if not m:
            raise RuntimeError("%s not found in %s" % (fn_name, path))
        out = []
        for mac, lit in re.findall(r'\b(write|writeln)!\(\s*writer\s*(?:,\s*"((?:[^"\\]|\\.)*)")?', m.group(0)):
            out.append((lit or "") + ("\n" if mac == "writeln" else ""))
        return out, m.group(0)
    iccma_ext, _ = fmts("src/io/iccma23_writer.rs", "write_single_extension")
    apx_ext, _ = fmts("src/io/aspartix_writer.rs", "write_single_extension")
    apx_fw, _ = fmts("src/io/aspartix_writer.rs", "write_framework")
    noext, _ = fmts("src/io/specs.rs", "pub(crate) fn write_no_extension")
    status, body = fmts("src/io/specs.rs", "pub(crate) fn write_acceptance_status")
    yn = re.search(r'if acceptance_status \{ "([^"]*)" \} else \{ "([^"]*)" \}', body)
    if not yn:
        raise RuntimeError("unexpected write_acceptance_status")
    expect = (len(iccma_ext), len(apx_ext), len(apx_fw), len(noext), len(status))
    if expect != (3, 4, 2, 1, 1):
        raise RuntimeError("unexpected number of write!/writeln! calls in the writers: %r" % (expect,))

    def codes(t):
        t = t.replace("\\n", "\n")
        return "[" + ", ".join(str(ord(c)) for c in t) + "]"

    def lst(ts):
        return "[" + ", ".join(codes(t) for t in ts) + "]"
    content = ("/-! Regenerated from /repo/src/io/{iccma23_writer,aspartix_writer,specs}.rs by tools/gen_from_source.py on every run.\n"
               "Format strings of the `write!` / `writeln!` calls in source order (`{}` = 123, 125 is a placeholder; `writeln!` adds 10). Do not edit. -/\n\n"
               "namespace Crusta.Gen\n\n"
               "def iccmaExtFormats : List (List Nat) := %s\n"
               "def apxExtFormats : List (List Nat) := %s\n"
               "def apxFrameworkFormats : List (List Nat) := %s\n"
               "def noExtensionFormats : List (List Nat) := %s\n"
               "def statusFormats : List (List Nat) := %s\n"
               "def statusYes : List Nat := %s\ndef statusNo : List Nat := %s\n\nend Crusta.Gen\n") % (
        lst(iccma_ext), lst(apx_ext), lst(apx_fw), lst(noext), lst(status), codes(yn.group(1)), codes(yn.group(2)))
    return write_if_changed(os.path.join(gen_dir, "WriterFormats.lean"), content)


# ----------------------------------------------------------------------------- tokens of the ICCMA'23 reader (io/iccma23_reader.rs)

def gen_iccma_tokens(repo, gen_dir):
    src = open(os.path.join(repo, "src/io/iccma23_reader.rs")).read().split("#[cfg(test)]")[0]
    c = re.search(r"if l\.starts_with\('(.)'\) \{\s*continue;", src)
    k = re.search(r'read_preamble\(&words, "([^"]*)"\)', src)
    pre = re.search(r"fn read_preamble\(.*?\n\}\n", src, re.S)
    n = re.search(r"if words\.len\(\) != (\d+) \{", pre.group(0)) if pre else None
    aw = re.search(r"if words\.len\(\) != (\d+) \{", src)
    f = re.search(r'if words\[0\] != "([^"]*)" \{', src)
    k2 = re.search(r"if words\[1\] != expected_kind \{", src)
    lab = re.search(r"new_with_labels\(\((\d+)\.\.=n_args\)", src)
    num = re.search(r"words\[2\]\.parse::<isize>\(\) \{\s*Ok\(n\) if n >= 0", src)
    if not all([c, k, n, aw, f, k2, lab, num]) or "l.is_empty()" not in src or "split_whitespace()" not in src:
        raise RuntimeError("the ICCMA'23 reader no longer has the shape the model mirrors")

    def codes(t):
        return "[" + ", ".join(str(ord(ch)) for ch in t) + "]"
    content = ("/-! Regenerated from /repo/src/io/iccma23_reader.rs by tools/gen_from_source.py on every run. Do not edit. -/\n\n"
               "namespace Crusta.Gen\n\n"
               "/-- first character of a comment line -/\ndef iccmaComment : Nat := %d\n"
               "/-- the preamble: number of words, first word, kind -/\n"
               "def iccmaPreambleWords : Nat := %s\ndef iccmaAttackWords : Nat := %s\ndef iccmaFirstWord : List Nat := %s\ndef iccmaKind : List Nat := %s\n"
               "/-- label of the first argument -/\ndef iccmaFirstLabel : Nat := %s\n\nend Crusta.Gen\n") % (
        ord(c.group(1)), n.group(1), aw.group(1), codes(f.group(1)), codes(k.group(1)), lab.group(1))
    return write_if_changed(os.path.join(gen_dir, "IccmaTokens.lean"), content)


# ----------------------------------------------------------------------------- CLI dispatch tables (app/solve_command.rs)

_SOLVER_KIND = {"Grounded": "GR", "Complete": "CO", "Preferred": "PR", "Stable": "ST", "SemiStable": "SST", "Stage": "STG", "Ideal": "ID"}


def gen_dispatch(repo, gen_dir):
    """which solver type answers each problem, and which encoder each (semantics, --encoding) pair selects;
    Props/C05 proves that the Lean dispatch functions are exactly these tables"""
    src = open(os.path.join(repo, "src/app/solve_command.rs")).read()
    rows = []
    for task, fn in (("SE", "compute_one_extension"), ("DC", "check_credulous_acceptance"), ("DS", "check_skeptical_acceptance")):
        m = re.search(r"fn %s<.*?\n\}\n" % fn, src, re.S)
        if not m:
            raise RuntimeError("%s not found in solve_command.rs" % fn)
        body = m.group(0)
        arms = list(re.finditer(r"((?:Semantics::\w+\s*\|?\s*)+)=>", body))
        if not arms:
            raise RuntimeError("no match arms in %s" % fn)
        for i, a in enumerate(arms):
            seg = body[a.end():arms[i + 1].start() if i + 1 < len(arms) else len(body)]
            sv = re.search(r"\b(\w+)SemanticsSolver::", seg)
            if not sv or sv.group(1) not in _SOLVER_KIND:
                raise RuntimeError("cannot tell the solver of an arm of %s" % fn)
            for sem in re.findall(r"Semantics::(\w+)", a.group(1)):
                rows.append((task, sem, _SOLVER_KIND[sv.group(1)]))
    if len(rows) != 21 or len(set((t, s_) for t, s_, _ in rows)) != 21:
        raise RuntimeError("the dispatch no longer has one arm per problem: %r" % rows)
    # encoder table
    m = re.search(r"fn create_encoder<.*?\n\}\n", src, re.S)
    if not m:
        raise RuntimeError("create_encoder not found")
    body = m.group(0)
    body = body[body.index("match sem {"):]
    heads = list(re.finditer(r"\n        (Semantics::[^\n]*?|_) =>", body))
    enc_rows = []

    def enc_id(seg):
        ids = []
        for mm in re.finditer(r"aux_var_constraints_encoder::new_for_(\w+)|exp_constraints_encoder::new_for_(\w+)|(HybridCompleteConstraintsEncoder)", seg):
            if mm.group(1):
                ids.append({"conflict_freeness": "auxCF", "admissibility": "auxADM", "complete_semantics": "auxCO"}[mm.group(1)])
            elif mm.group(2):
                ids.append({"conflict_freeness": "expCF", "complete_semantics": "expCO"}[mm.group(2)])
            else:
                ids.append("hyb")
        if len(ids) != 1:
            raise RuntimeError("cannot tell the encoder of an arm of create_encoder: %r" % seg[:80])
        return ids[0]
    for i, h in enumerate(heads):
        seg = body[h.end():heads[i + 1].start() if i + 1 < len(heads) else len(body)]
        head = h.group(1)
        sems = re.findall(r"Semantics::(\w+)", head)
        guard = "SE-PR" if '== "SE-PR"' in head else ""
        if head != "_" and (" if " in head) != bool(guard):
            raise RuntimeError("unexpected guard in create_encoder: %r" % head)
        key = "[" + ", ".join('"%s"' % x for x in sems) + "]"
        if re.match(r"\s*None,", seg):
            enc_rows.append((key, guard, "", "", "none"))
            continue
        d = re.search(r'match encoding_as_str\("([^"]*)"\) \{', seg)
        if not d:
            raise RuntimeError("unexpected arm body in create_encoder: %r" % seg[:80])
        keys = list(re.finditer(r'\n\s*"(\w+)" =>', seg))
        for j, kk in enumerate(keys):
            sub = seg[kk.end():keys[j + 1].start() if j + 1 < len(keys) else len(seg)]
            sub = sub.split("_ => unreachable!()")[0]
            enc_rows.append((key, guard, d.group(1), kk.group(1), enc_id(sub)))
    content = ("/-! Regenerated from /repo/src/app/solve_command.rs by tools/gen_from_source.py on every run. Do not edit. -/\n\n"
               "namespace Crusta.Gen\n\n"
               "/-- (task, semantics, solver type answering the problem) -/\n"
               "def dispatchTable : List (String × String × String) := [%s]\n\n"
               "/-- `create_encoder`: (semantics of the arm, `[]` for `_`; guard on the literal problem string, default `--encoding`, `--encoding` value, encoder), in source order -/\n"
               "def encoderTable : List (List String × String × String × String × String) := [%s]\n\nend Crusta.Gen\n") % (
        ", ".join('("%s", "%s", "%s")' % r for r in rows), ", ".join('(%s, "%s", "%s", "%s", "%s")' % r for r in enc_rows))
    return write_if_changed(os.path.join(gen_dir, "Dispatch.lean"), content)


# ----------------------------------------------------------------------------- ICCMA'23 wrapper (main_iccma23.rs)

def gen_wrapper(repo, gen_dir):
    src = open(os.path.join(repo, "src/main_iccma23.rs")).read()
    common = re.search(r"const COMMON_ARGS: \[&str; \d+\] = \[([^\]]*)\];", src)
    special = re.search(r"else if real_args == \[([^\]]*)\] \{", src)
    onces = re.findall(r'std::iter::once\("(\w+)"\.to_string\(\)\.into\(\)\)', src)
    tail = re.search(r"\.chain\(\s*\[([^\]]*)\]\s*\.iter\(\)", src)
    order = re.search(r'once\("solve"\.to_string\(\)\.into\(\)\)\s*\.chain\(real_args\.into_iter\(\)\)\s*\.chain\(COMMON_ARGS\.iter\(\)', src)
    if not (common and special and tail and order) or onces != ["authors", "problems", "solve"] or "if real_args.is_empty()" not in src:
        raise RuntimeError("translate_args_os_params no longer has the shape the model mirrors")

    def strs(t):
        return "[" + ", ".join('"%s"' % x for x in re.findall(r'"([^"]*)"', t)) + "]"
    content = ("/-! Regenerated from /repo/src/main_iccma23.rs by tools/gen_from_source.py on every run. Do not edit. -/\n\n"
               "namespace Crusta.Gen\n\n"
               "def wrapperCommonArgs : List String := %s\n"
               "def wrapperSpecialInvocation : List String := %s\n"
               "def wrapperSubcommands : List String := %s\n"
               "def wrapperSolveTail : List String := %s\n\nend Crusta.Gen\n") % (
        strs(common.group(1)), strs(special.group(1)), "[" + ", ".join('"%s"' % x for x in onces) + "]", strs(tail.group(1)))
    return write_if_changed(os.path.join(gen_dir, "Wrapper.lean"), content)
