import Crusta.Proofs.CliCompose
import Crusta.Proofs.StoreIccma
import Crusta.Proofs.ReaderWF

/-!
# From the bytes of an instance file to the answer of the command line

`readIccma_wfa`: what the ICCMA'23 reader accepts is a well-formed framework; `cli_on_iccma_file`:
composition of the reader, the store it builds (`Store.ofIccma_view_ok`) and `cli_answer_valid`.
-/

namespace Crusta.Cli
open Crusta Crusta.IO

/-- the argument string of `-a` denotes an argument of the framework read -/
theorem iccmaArgOfStr_lt (n : Nat) (arg : Str) (a : Nat) (h : iccmaArgOfStr n arg = some a) : a < n := by
  unfold iccmaArgOfStr at h
  split at h
  · rename_i k _
    split at h
    · rename_i hk
      cases h
      simp only [Bool.and_eq_true, decide_eq_true_eq] at hk
      omega
    · cases h
  · cases h

/-- **from the bytes of an instance file to the answer**: for every byte sequence the ICCMA'23
reader accepts, the store it builds presents exactly the declared graph, and for every accepted
problem string, `--encoding` value, certificate flag and `-a` string the reader's argument
look-up accepts, the dispatched solver program exists, never panics on sound replies and returns
what the problem asks for on that graph -/
theorem cli_on_iccma_file (bs : List UInt8) (fw : IccmaFw) (hfile : readIccma bs = .ok fw)
    (s : Str) (t : Task) (σ : Sem) (hread : readProblem s = some (t, σ))
    (enc : Option String) (cfg : Cfg)
    (henc : ∀ k, dispatchEncoder σ enc (decide (s = s_SEPR)) = some k → cfg.enc = k)
    (cert : Bool) (argStr : Str) (a : Nat) (harg : t ≠ .SE → iccmaArgOfStr fw.n argStr = some a)
    (w : World) (hb : w.Bounded)
    (hfuel : cfg.fuel ≥ fuelFor (1 + (Store.ofIccma fw.n fw.atts).view.maxId.getD 0)) :
    (∀ x, (Store.ofIccma fw.n fw.atts).g.live x = true ↔ x < fw.n) ∧
    (∀ x y, (Store.ofIccma fw.n fw.atts).g.att x y ↔ (x, y) ∈ fw.atts) ∧
    ∃ p, entryProg (dispatchSolver t σ) cfg (Store.ofIccma fw.n fw.atts).view (entryOf t cert [a]) = some p ∧
      wp False p w (fun ans _ => ProblemOK t σ (Store.ofIccma fw.n fw.atts).g (entryOf t cert [a]) ans) := by
  have hwf := readIccma_wfa bs fw hfile
  have hg := Store.ofIccma_g fw.n fw.atts hwf
  refine ⟨hg.1, hg.2, ?_⟩
  apply cli_answer_valid_read s t σ hread enc cfg henc _ _ (Store.ofIccma_view_ok fw.n fw.atts hwf) cert [a] ?_ w hb hfuel
  intro x hx
  cases t with
  | SE => simp [entryOf, Entry.argsList] at hx
  | DC =>
    simp [entryOf, Entry.argsList] at hx; subst hx
    exact (hg.1 x).2 (iccmaArgOfStr_lt _ _ _ (harg (by simp)))
  | DS =>
    simp [entryOf, Entry.argsList] at hx; subst hx
    exact (hg.1 x).2 (iccmaArgOfStr_lt _ _ _ (harg (by simp)))

end Crusta.Cli
