import Crusta.Proofs.Oracle

/-! # C07 — multi-argument queries are disjunctions (property theorems) -/

namespace Crusta.C07
open Crusta

/-- the reference status of a list query is the disjunction over its members (credulous) -/
theorem cred_is_disjunction (σ : Sem) (af : AF) (hwf : af.WF) (as : List Nat) :
    σ.credB af as = true ↔ ∃ a ∈ as, σ.credB af [a] = true := by
  rw [credB_iff σ af hwf]
  constructor
  · rintro ⟨S, hS, a, ha, hSa⟩
    exact ⟨a, ha, (credB_iff σ af hwf [a]).2 ⟨S, hS, a, by simp, hSa⟩⟩
  · rintro ⟨a, ha, h⟩
    obtain ⟨S, hS, b, hb, hSb⟩ := (credB_iff σ af hwf [a]).1 h
    simp at hb; subst hb
    exact ⟨S, hS, b, ha, hSb⟩

/-- skeptical list queries: every extension contains at least one member (this is *not* the
disjunction of the single-argument skeptical statuses, which is why it needs its own check) -/
theorem skep_list_spec (σ : Sem) (af : AF) (hwf : af.WF) (as : List Nat) :
    σ.skepB af as = true ↔ ∀ S, σ.Ext af S → ∃ a ∈ as, S a = true := skepB_iff σ af hwf as

/-- repetitions and order in the list are irrelevant -/
theorem cred_perm_invariant (σ : Sem) (af : AF) (hwf : af.WF) (as bs : List Nat)
    (h : ∀ a, a ∈ as ↔ a ∈ bs) : σ.credB af as = σ.credB af bs := by
  apply Bool.eq_iff_iff.2
  rw [credB_iff σ af hwf, credB_iff σ af hwf]
  constructor
  · rintro ⟨S, hS, a, ha, hSa⟩; exact ⟨S, hS, a, (h a).1 ha, hSa⟩
  · rintro ⟨S, hS, a, ha, hSa⟩; exact ⟨S, hS, a, (h a).2 ha, hSa⟩

theorem skep_perm_invariant (σ : Sem) (af : AF) (hwf : af.WF) (as bs : List Nat)
    (h : ∀ a, a ∈ as ↔ a ∈ bs) : σ.skepB af as = σ.skepB af bs := by
  apply Bool.eq_iff_iff.2
  rw [skepB_iff σ af hwf, skepB_iff σ af hwf]
  constructor
  · intro hh S hS; obtain ⟨a, ha, hSa⟩ := hh S hS; exact ⟨a, (h a).1 ha, hSa⟩
  · intro hh S hS; obtain ⟨a, ha, hSa⟩ := hh S hS; exact ⟨a, (h a).2 ha, hSa⟩

/-- the judge forces the variants with and without certificate to the same status -/
theorem variants_agree (af : AF) (hwf : af.WF) (σ : Sem) (t : Task) (as : List Nat)
    (st1 st2 : Bool) (c : Option (List Nat))
    (h1 : checkAnswer af ⟨σ, t, false, as⟩ (.acc st1 none) = .ok ())
    (h2 : checkAnswer af ⟨σ, t, true, as⟩ (.acc st2 (some c)) = .ok ()) : st1 = st2 := by
  rw [checkAnswer_iff af hwf] at h1 h2
  cases t
  · simp [Conforms] at h1
  · simp only [Conforms] at h1 h2; exact status_eq_of_iff h1.1 h2.1
  · simp only [Conforms] at h1 h2; exact status_eq_of_iff h1.1 h2.1

end Crusta.C07
