import Crusta.Model.Equiv
import Crusta.Proofs.Deciders
import Crusta.Proofs.EquivSound
import Crusta.Proofs.EquivGrounded

/-! # C19 — arguments merged by the equivalence reduction are indistinguishable (property theorems) -/

namespace Crusta.C19
open Crusta Crusta.Eq

/-- the criterion used to judge every merged pair is exact: identical membership in every complete
extension of the framework (textbook definition), for all frameworks -/
theorem sameComplete_exact (af : AF) (a b : Nat) :
    sameCompleteB af a b = true ↔ ∀ S, Complete af S → S a = S b := by
  unfold sameCompleteB
  simp only [List.all_eq_true, beq_iff_eq]
  constructor
  · intro h S hS
    obtain ⟨l, hl, rfl⟩ := exists_list_of_sub af S (co_sub hS)
    exact h l ((mem_extsCO af l).2 ⟨hl, hS⟩)
  · intro h e he
    exact h (ofList e) ((mem_extsCO af e).1 he).2

/-- indistinguishability is an equivalence relation, so "merge classes" is meaningful -/
theorem sameComplete_equiv (af : AF) :
    (∀ a, sameCompleteB af a a = true) ∧
    (∀ a b, sameCompleteB af a b = true → sameCompleteB af b a = true) ∧
    (∀ a b c, sameCompleteB af a b = true → sameCompleteB af b c = true → sameCompleteB af a c = true) := by
  simp only [sameComplete_exact]
  exact ⟨fun _ _ _ => trivial, fun _ _ h S hS => (h S hS).symm, fun _ _ _ h1 h2 S hS => (h1 S hS).trans (h2 S hS)⟩

/-- **C19, the reduction itself** (model `Crusta.Eq.computeClasses`, tied to the implementation by the
`equiv` family): on every well-formed framework the classes only merge arguments that belong to
exactly the same complete extensions -/
theorem merged_arguments_indistinguishable (af : AF) (hwf : af.WF) :
    ∀ c ∈ computeClasses af, ∀ a ∈ c.members, ∀ b ∈ c.members, ∀ S, Complete af S → S a = S b :=
  classes_sound af hwf

/-- the grounded class lies in every complete extension, the defeated class in none -/
theorem grounded_and_defeated_classes (af : AF) (hwf : af.WF) :
    ∀ c ∈ computeClasses af, (c.kind = .grounded → ∀ a ∈ c.members, ∀ S, Complete af S → S a = true) ∧
      (c.kind = .defeated → ∀ a ∈ c.members, ∀ S, Complete af S → S a = false) :=
  special_classes af hwf

/-- the classes partition the arguments (total, no overlap) -/
theorem classes_are_a_partition (af : AF) (hwf : af.WF) :
    (∀ a, a < af.n → ∃ c ∈ computeClasses af, a ∈ c.members) ∧
    (∀ c ∈ computeClasses af, ∀ a ∈ c.members, a < af.n) ∧
    ((computeClasses af).flatMap (·.members)).Nodup :=
  classes_partition af hwf

/-- the two mappings are total and inverse at the level of classes: `init_to_reduced` sends every
argument to the class that contains it -/
theorem mappings_inverse (af : AF) (hwf : af.WF) :
    ∀ a, a < af.n → ∃ c, (computeClasses af)[(initToReduced af.n (computeClasses af)).getD a 0]? = some c ∧
      a ∈ c.members :=
  maps_inverse af hwf

/-- soundness of the propagation underlying the reduction -/
theorem propagation_sound (af : AF) (hwf : af.WF) (args : List Nat) (hargs : ∀ a ∈ args, a < af.n) :
    (∀ p d, propagate af (nAttacksTo af) args = some (p, d) →
      ∀ S, Complete af S → (∀ a ∈ args, S a = true) → (∀ x ∈ p, S x = true) ∧ (∀ x ∈ d, S x = false)) ∧
    (propagate af (nAttacksTo af) args = none → ¬ ∃ S, Complete af S ∧ ∀ a ∈ args, S a = true) :=
  propagate_sound af hwf args hargs

/-! ### "in particular all arguments of the grounded extension together, and all arguments it defeats together" -/

/-- every argument that is in every complete extension (i.e. in the grounded extension) is a member of
the class of kind `grounded` -/
theorem grounded_arguments_together (af : AF) (hwf : af.WF) (a : Nat) (ha : a < af.n)
    (hall : ∀ S, Complete af S → S a = true) :
    ∃ c ∈ computeClasses af, c.kind = .grounded ∧ a ∈ c.members :=
  Eq.grounded_arguments_together af hwf a ha hall

/-- every argument attacked by an argument of the grounded extension is a member of the class of kind
`defeated` -/
theorem defeated_arguments_together (af : AF) (hwf : af.WF) (a b : Nat) (ha : a < af.n) (hb : b < af.n)
    (hall : ∀ S, Complete af S → S a = true) (hatt : (a, b) ∈ af.atts) :
    ∃ c ∈ computeClasses af, c.kind = .defeated ∧ b ∈ c.members :=
  Eq.defeated_arguments_together af hwf a b ha hb hall hatt

/-- there is at most one class of each of the two special kinds: "together" means one class -/
theorem special_classes_unique (af : AF) (hwf : af.WF) :
    ∀ c1 ∈ computeClasses af, ∀ c2 ∈ computeClasses af, c1.kind = c2.kind → c1.kind ≠ .other → c1 = c2 :=
  Eq.special_classes_unique af hwf

/-- hence `init_to_reduced_arg` sends any two grounded arguments to the same reduced argument … -/
theorem grounded_same_reduced_argument (af : AF) (hwf : af.WF) (a b : Nat) (ha : a < af.n) (hb : b < af.n)
    (halla : ∀ S, Complete af S → S a = true) (hallb : ∀ S, Complete af S → S b = true) :
    (initToReduced af.n (computeClasses af)).getD a 0 = (initToReduced af.n (computeClasses af)).getD b 0 :=
  Eq.grounded_same_index af hwf a b ha hb halla hallb

/-- … and any two arguments defeated by the grounded extension as well -/
theorem defeated_same_reduced_argument (af : AF) (hwf : af.WF) (a a' b b' : Nat)
    (ha : a < af.n) (ha' : a' < af.n) (hb : b < af.n) (hb' : b' < af.n)
    (halla : ∀ S, Complete af S → S a = true) (halla' : ∀ S, Complete af S → S a' = true)
    (hatt : (a, b) ∈ af.atts) (hatt' : (a', b') ∈ af.atts) :
    (initToReduced af.n (computeClasses af)).getD b 0 = (initToReduced af.n (computeClasses af)).getD b' 0 :=
  Eq.defeated_same_index af hwf a a' b b' ha ha' hb hb' halla halla' hatt hatt'

/-- the class of kind `grounded` IS the grounded extension, the class of kind `defeated` the set it attacks -/
theorem grounded_class_is_the_grounded_extension (af : AF) (hwf : af.WF) :
    (∀ c ∈ computeClasses af, c.kind = .grounded → Grounded af (ofList c.members)) ∧
    (∀ c ∈ computeClasses af, c.kind = .defeated →
      ∀ G, Grounded af G → ∀ x, x ∈ c.members ↔ AttackedBy af G x) :=
  Eq.grounded_class_is_grounded af hwf

/-- non-vacuity: in the framework `0 → 1, 2 → 2` the unattacked argument 0 is in every complete extension, so the
hypotheses of `grounded_arguments_together` (for 0) and of `defeated_arguments_together` (for 1) are met -/
example : let af : AF := ⟨3, [(0, 1), (2, 2)]⟩
    af.WF ∧ (∀ S, Complete af S → S 0 = true) ∧
    (∃ c ∈ computeClasses af, c.kind = .grounded ∧ 0 ∈ c.members) ∧
    (∃ c ∈ computeClasses af, c.kind = .defeated ∧ 1 ∈ c.members) := by
  intro af
  have hwf : af.WF := by
    intro p hp
    have : p = (0, 1) ∨ p = (2, 2) := by simpa [af] using hp
    rcases this with rfl | rfl <;> simp [af]
  have h0 : ∀ S, Complete af S → S 0 = true := fun S hS => unattacked_in af hwf 0 (by decide) S hS
  exact ⟨hwf, h0, Eq.grounded_arguments_together af hwf 0 (by decide) h0,
    Eq.defeated_arguments_together af hwf 0 1 (by decide) (by decide) h0 (by simp [af])⟩

end Crusta.C19
