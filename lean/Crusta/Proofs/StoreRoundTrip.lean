import Crusta.Proofs.GroundedAlg
import Crusta.Proofs.RoundTrip

/-!
# Store ∘ Aspartix writer ∘ Aspartix reader

Composition of the store invariant (`Store.inv_reachable`: every update history reaches a state
satisfying `Store.Inv`) with the Aspartix round trip (`IO.apx_write_read`):

**whatever update history produced the framework, writing it in Aspartix format and reading it back
gives the same framework** — the same labels in the same order and the same attacks in the same
order (as positions in the list of live arguments).

* `Store.write_read_of_inv`: the statement for any state satisfying the invariant, with the attack
  list read back given explicitly (`Store.attPos`);
* `store_write_read`: for `Store.runOps Store.empty ops = some s`;
* `store_write_read_fold`: for the fold of the run-time driver (`Driver/IO.lean`, `runWrite`);
* `store_write_read_driver`: the two comparisons made by `runWrite` (labels, attacks located by
  `idxOf`) succeed for every history;
* instances: `nameOf l = pfx ++ natToStr l` for any identifier `pfx` (`store_write_read_prefixed`),
  in particular the default naming `a<l>` of the harness (`store_write_read_default`);
* `nameOf = natToStr` (the bare `usize` labels) is **not** an instance: a decimal numeral is not an
  identifier of the Aspartix reader (`not_validId_natToStr`), and the text written for a framework
  with at least one live argument is rejected by the reader (`store_write_read_usize_rejected`).
-/

namespace Crusta
open _root_.Crusta.IO

namespace Store

/-! ## the list of live arguments -/

theorem mem_liveArgs_iff (s : Store) (i l : Nat) : (i, l) ∈ s.liveArgs ↔ s.labelOf i = some l := by
  unfold liveArgs labelOf
  simp only [List.mem_filterMap]
  constructor
  · rintro ⟨⟨x, k⟩, hm, hx⟩
    have hg := List.mem_zipIdx_iff_getElem?.1 hm
    cases x with
    | none => simp at hx
    | some l' =>
      simp only [Option.map_some, Option.some.injEq, Prod.mk.injEq] at hx
      obtain ⟨rfl, rfl⟩ := hx
      simp only at hg
      simp [List.getD_eq_getElem?_getD, hg]
  · intro h
    refine ⟨(some l, i), ?_, by simp⟩
    apply List.mem_zipIdx_iff_getElem?.2
    simp only
    rw [List.getD_eq_getElem?_getD] at h
    cases hg : s.labels[i]? with
    | none => rw [hg] at h; cases h
    | some x => rw [hg] at h; simpa using h

/-- position of the argument with id `i` in the list of live arguments -/
def posOf (s : Store) (i : Nat) : Nat := (s.liveArgs.map (·.1)).idxOf i

/-- the live attacks, in push order, as pairs of positions in the list of live arguments -/
def attPos (s : Store) : List (Nat × Nat) := s.iterAttacks.map (fun p => (s.posOf p.1, s.posOf p.2))

theorem posOf_spec (s : Store) (nameOf : Nat → Str) {a : Nat} (h : s.hasId a = true) :
    s.posOf a < s.liveArgs.length ∧ (s.liveArgs.map (·.1))[s.posOf a]? = some a ∧
      (s.liveArgs.map (fun p => nameOf p.2)).getD (s.posOf a) [] = nameOf ((s.labelOf a).getD 0) := by
  have hm : a ∈ s.liveArgs.map (·.1) := (Store.mem_liveArgs s a).2 h
  have hlt : s.posOf a < (s.liveArgs.map (·.1)).length := List.idxOf_lt_length_of_mem hm
  have hget : (s.liveArgs.map (·.1))[s.posOf a] = a := List.getElem_idxOf hlt
  have hlt' : s.posOf a < s.liveArgs.length := by simpa using hlt
  refine ⟨hlt', ?_, ?_⟩
  · rw [List.getElem?_eq_getElem hlt, hget]
  · rw [List.getElem_map] at hget
    have hmem : s.liveArgs[s.posOf a] ∈ s.liveArgs := List.getElem_mem hlt'
    have hl : s.labelOf a = some (s.liveArgs[s.posOf a]).2 := by
      apply (mem_liveArgs_iff s a _).1
      have e : s.liveArgs[s.posOf a] = (a, (s.liveArgs[s.posOf a]).2) :=
        Prod.ext hget rfl
      rw [← e]; exact hmem
    rw [List.getD_eq_getElem?_getD, List.getElem?_eq_getElem (by simpa using hlt'), List.getElem_map, hl]
    rfl

theorem posOf_inj (s : Store) {a b : Nat} (ha : s.hasId a = true) (hb : s.hasId b = true)
    (h : s.posOf a = s.posOf b) : a = b := by
  have h1 := (posOf_spec s (fun _ => []) ha).2.1
  have h2 := (posOf_spec s (fun _ => []) hb).2.1
  rw [h, h2] at h1
  injection h1 with h1; exact h1.symm

/-- the labels of the live arguments are pairwise distinct -/
theorem liveLabels_nodup {s : Store} (hinv : s.Inv) : (s.liveArgs.map (·.2)).Nodup := by
  have h1 : List.Pairwise (fun p q : Nat × Nat => p.1 ≠ q.1) s.liveArgs :=
    List.pairwise_map.1 (Store.liveArgs_nodup s)
  refine List.pairwise_map.2 ((List.Pairwise.and_mem.1 h1).imp ?_)
  rintro ⟨i, l⟩ ⟨j, l'⟩ ⟨hp, hq, hne⟩ e
  simp only at e hne
  subst e
  exact hne (hinv.label_inj i j l ((mem_liveArgs_iff s i l).1 hp) ((mem_liveArgs_iff s j l).1 hq))

theorem names_nodup {s : Store} (hinv : s.Inv) (nameOf : Nat → Str)
    (hinj : ∀ a b, nameOf a = nameOf b → a = b) : (s.liveArgs.map (fun p => nameOf p.2)).Nodup := by
  have h := liveLabels_nodup hinv
  refine List.pairwise_map.2 ((List.pairwise_map.1 h).imp ?_)
  intro p q hne e
  exact hne (hinj _ _ e)

/-! ## the list of live attacks -/

theorem getElem?_attacks (s : Store) (i : Nat) : s.attacks[i]?.getD none = s.att i := by
  unfold att; rw [List.getD_eq_getElem?_getD]

/-- no attack is listed twice by `iter_attacks` -/
theorem iterAttacks_nodup {s : Store} (hinv : s.Inv) : s.iterAttacks.Nodup := by
  unfold iterAttacks
  have h : List.Pairwise (fun x y : Option (Nat × Nat) => ∀ p, x = some p → y ≠ some p) s.attacks := by
    rw [List.pairwise_iff_getElem]
    intro i j hi hj hij p hx hy
    have e1 : s.att i = some p := by
      rw [← getElem?_attacks, List.getElem?_eq_getElem hi, hx]; rfl
    have e2 : s.att j = some p := by
      rw [← getElem?_attacks, List.getElem?_eq_getElem hj, hy]; rfl
    have := hinv.att_nodup i j p.1 p.2 e1 e2
    omega
  refine List.Pairwise.filterMap _ ?_ h
  intro x y hxy b hb b' hb' e
  subst e
  exact hxy b hb hb'

theorem iterAttacks_live {s : Store} (hinv : s.Inv) {p : Nat × Nat} (hp : p ∈ s.iterAttacks) :
    s.hasId p.1 = true ∧ s.hasId p.2 = true := by
  obtain ⟨i, hi⟩ := (mem_iterAttacks p.1 p.2).1 hp
  exact hinv.ends_live i p.1 p.2 hi

theorem attPos_nodup {s : Store} (hinv : s.Inv) : s.attPos.Nodup := by
  unfold attPos
  refine List.pairwise_map.2 ((List.Pairwise.and_mem.1 (iterAttacks_nodup hinv)).imp ?_)
  rintro ⟨a, b⟩ ⟨c, d⟩ ⟨hp, hq, hne⟩ e
  simp only [Prod.mk.injEq] at e
  have h1 := iterAttacks_live hinv hp
  have h2 := iterAttacks_live hinv hq
  apply hne
  have e1 : a = c := posOf_inj s h1.1 h2.1 e.1
  have e2 : b = d := posOf_inj s h1.2 h2.2 e.2
  rw [e1, e2]

/-! ## the composition -/

/-- **write/read round trip of a store satisfying the invariant**: the text written for the store
reads back as the same labels in the same order, and the attack list `attPos` (the live attacks in
the same order, as positions in the list of live arguments) -/
theorem write_read_of_inv {s : Store} (hinv : s.Inv)
    (nameOf : Nat → Str) (hinj : ∀ a b, nameOf a = nameOf b → a = b) (hval : ∀ l, ValidId (nameOf l)) :
    readApx (encodeUtf8 (writeApx (s.liveArgs.map (fun p => nameOf p.2))
        (s.iterAttacks.map (fun p => (nameOf ((s.labelOf p.1).getD 0), nameOf ((s.labelOf p.2).getD 0))))))
      = .ok ⟨s.liveArgs.map (fun p => nameOf p.2), s.attPos⟩ := by
  have hatts : s.iterAttacks.map (fun p => (nameOf ((s.labelOf p.1).getD 0), nameOf ((s.labelOf p.2).getD 0)))
      = s.attPos.map (fun p => ((s.liveArgs.map (fun p => nameOf p.2)).getD p.1 [],
          (s.liveArgs.map (fun p => nameOf p.2)).getD p.2 [])) := by
    unfold attPos
    rw [List.map_map]
    apply List.map_congr_left
    intro p hp
    have h := iterAttacks_live hinv hp
    simp only [Function.comp]
    rw [(posOf_spec s nameOf h.1).2.2, (posOf_spec s nameOf h.2).2.2]
  rw [hatts]
  apply apx_write_read
  · intro l hl
    obtain ⟨p, _, rfl⟩ := List.mem_map.1 hl
    exact hval _
  · exact names_nodup hinv nameOf hinj
  · intro q hq
    unfold attPos at hq
    obtain ⟨p, hp, rfl⟩ := List.mem_map.1 hq
    have h := iterAttacks_live hinv hp
    simp only [List.length_map]
    exact ⟨(posOf_spec s nameOf h.1).1, (posOf_spec s nameOf h.2).1⟩
  · exact attPos_nodup hinv

/-- the `k`-th entry of `attPos` denotes the `k`-th live attack -/
theorem attPos_spec {s : Store} (hinv : s.Inv) :
    s.attPos.length = s.iterAttacks.length ∧
    ∀ k (hk : k < s.attPos.length), ∃ a b, s.iterAttacks[k]? = some (a, b) ∧
      s.hasId a = true ∧ s.hasId b = true ∧ s.attPos[k] = (s.posOf a, s.posOf b) ∧
      (s.liveArgs.map (·.1))[(s.attPos[k]).1]? = some a ∧
      (s.liveArgs.map (·.1))[(s.attPos[k]).2]? = some b := by
  refine ⟨by simp [attPos], ?_⟩
  intro k hk
  have hk' : k < s.iterAttacks.length := by simpa [attPos] using hk
  have hm : s.iterAttacks[k] ∈ s.iterAttacks := List.getElem_mem hk'
  have h := iterAttacks_live hinv hm
  have e : s.attPos[k] = (s.posOf (s.iterAttacks[k]).1, s.posOf (s.iterAttacks[k]).2) := by
    simp [attPos]
  refine ⟨(s.iterAttacks[k]).1, (s.iterAttacks[k]).2, List.getElem?_eq_getElem hk', h.1, h.2, e, ?_, ?_⟩
  · rw [e]; exact (posOf_spec s (fun _ => []) h.1).2.1
  · rw [e]; exact (posOf_spec s (fun _ => []) h.2).2.1

/-- the fold of the run-time driver (a rejected operation leaves the state as returned, a panic —
which never happens — would leave it unchanged) -/
def foldOps (ops : List StoreOp) : Store :=
  ops.foldl (fun s o => match s.step o with | .ok s' => s' | .err s' => s' | .panic => s) Store.empty

theorem foldl_of_runOps : ∀ (ops : List StoreOp) (s s' : Store), runOps s ops = some s' →
    ops.foldl (fun s o => match s.step o with | .ok s' => s' | .err s' => s' | .panic => s) s = s'
  | [], s, s', h => by simp only [runOps, Option.some.injEq] at h; simpa using h
  | op :: ops, s, s', h => by
    simp only [runOps] at h
    simp only [List.foldl_cons]
    cases hs : s.step op with
    | ok t => rw [hs] at h; exact foldl_of_runOps ops t s' h
    | err t => rw [hs] at h; exact foldl_of_runOps ops t s' h
    | panic => rw [hs] at h; cases h

/-- the driver's fold is the history semantics `runOps` (which never panics) -/
theorem runOps_foldOps (ops : List StoreOp) : runOps Store.empty ops = some (foldOps ops) := by
  obtain ⟨s, hs, _⟩ := inv_reachable ops
  rw [hs, foldOps, foldl_of_runOps ops _ _ hs]

theorem inv_of_runOps {ops : List StoreOp} {s : Store} (hs : runOps Store.empty ops = some s) : s.Inv := by
  obtain ⟨s', hs', hinv⟩ := inv_reachable ops
  rw [hs] at hs'; injection hs' with e; exact e ▸ hinv

end Store

/-! ## main statements -/

/-- **Whatever update history produced the framework, writing it in Aspartix format and reading it
back gives the same framework**: the same labels in the same order, and the same attacks in the
same order.  (`runOps` goes on after a rejected operation and returns `none` only on a panic, which
never happens: `Store.inv_reachable`.) -/
theorem store_write_read (ops : List StoreOp) (s : Store) (hs : Store.runOps Store.empty ops = some s)
    (nameOf : Nat → Str) (hinj : ∀ a b, nameOf a = nameOf b → a = b) (hval : ∀ l, ValidId (nameOf l)) :
    let labels := s.liveArgs.map (fun p => nameOf p.2)
    let lab := fun i => nameOf ((s.labelOf i).getD 0)
    let atts := s.iterAttacks.map (fun p => (lab p.1, lab p.2))
    ∃ attIdx : List (Nat × Nat),
      readApx (encodeUtf8 (writeApx labels atts)) = .ok ⟨labels, attIdx⟩ ∧
      attIdx.length = s.iterAttacks.length ∧
      (∀ k (hk : k < attIdx.length),
         ∃ a b, s.iterAttacks[k]? = some (a, b) ∧
           (s.liveArgs.map (·.1))[(attIdx[k]).1]? = some a ∧ (s.liveArgs.map (·.1))[(attIdx[k]).2]? = some b) := by
  intro labels lab atts
  have hinv := Store.inv_of_runOps hs
  refine ⟨s.attPos, Store.write_read_of_inv hinv nameOf hinj hval, (Store.attPos_spec hinv).1, ?_⟩
  intro k hk
  obtain ⟨a, b, h1, _, _, _, h2, h3⟩ := (Store.attPos_spec hinv).2 k hk
  exact ⟨a, b, h1, h2, h3⟩

/-- the same for the fold of the run-time driver (`Driver/IO.lean`, `runWrite`), for every list of
operations (no hypothesis: no history panics) -/
theorem store_write_read_fold (ops : List StoreOp)
    (nameOf : Nat → Str) (hinj : ∀ a b, nameOf a = nameOf b → a = b) (hval : ∀ l, ValidId (nameOf l)) :
    let s := ops.foldl (fun s o => match s.step o with | .ok s' => s' | .err s' => s' | .panic => s) Store.empty
    let labels := s.liveArgs.map (fun p => nameOf p.2)
    let lab := fun i => nameOf ((s.labelOf i).getD 0)
    let atts := s.iterAttacks.map (fun p => (lab p.1, lab p.2))
    ∃ attIdx : List (Nat × Nat),
      readApx (encodeUtf8 (writeApx labels atts)) = .ok ⟨labels, attIdx⟩ ∧
      attIdx.length = s.iterAttacks.length ∧
      (∀ k (hk : k < attIdx.length),
         ∃ a b, s.iterAttacks[k]? = some (a, b) ∧
           (s.liveArgs.map (·.1))[(attIdx[k]).1]? = some a ∧ (s.liveArgs.map (·.1))[(attIdx[k]).2]? = some b) :=
  store_write_read ops _ (Store.runOps_foldOps ops) nameOf hinj hval

/-- the two comparisons of the driver's verdict (`runWrite`: labels equal, attacks equal to the
written attacks located in the label list by `idxOf`) succeed for every history -/
theorem store_write_read_driver (ops : List StoreOp)
    (nameOf : Nat → Str) (hinj : ∀ a b, nameOf a = nameOf b → a = b) (hval : ∀ l, ValidId (nameOf l)) :
    let s := ops.foldl (fun s o => match s.step o with | .ok s' => s' | .err s' => s' | .panic => s) Store.empty
    let labels := s.liveArgs.map (fun p => nameOf p.2)
    let lab := fun i => nameOf ((s.labelOf i).getD 0)
    let atts := s.iterAttacks.map (fun p => (lab p.1, lab p.2))
    readApx (encodeUtf8 (writeApx labels atts)) =
      .ok ⟨labels, atts.map (fun p => ((idxOf labels p.1).getD 9999, (idxOf labels p.2).getD 9999))⟩ := by
  intro s labels lab atts
  have hinv : s.Inv := Store.inv_of_runOps (Store.runOps_foldOps ops)
  have h := Store.write_read_of_inv hinv nameOf hinj hval
  have hnd := Store.names_nodup hinv nameOf hinj
  have e : atts.map (fun p => ((idxOf labels p.1).getD 9999, (idxOf labels p.2).getD 9999)) = s.attPos := by
    simp only [atts, Store.attPos, List.map_map]
    apply List.map_congr_left
    intro p hp
    have hl := Store.iterAttacks_live hinv hp
    have h1 := Store.posOf_spec s nameOf hl.1
    have h2 := Store.posOf_spec s nameOf hl.2
    simp only [Function.comp, lab]
    rw [← h1.2.2, ← h2.2.2, idxOf_getD labels hnd _ (by simpa [labels] using h1.1),
      idxOf_getD labels hnd _ (by simpa [labels] using h2.1)]
    rfl
  rw [e]; exact h

/-! ## instances of the naming function -/

namespace IO

theorem natToStr_inj (a b : Nat) (h : natToStr a = natToStr b) : a = b := by
  rw [← digitsVal_natToStr a, ← digitsVal_natToStr b, h]

theorem isDigitU_ascii (c : Nat) (h : 48 ≤ c ∧ c ≤ 57) : isDigitU c = true := by
  unfold isDigitU
  rw [inRanges_iff]
  exact ⟨(48, 57), by simp [Gen.decimalRanges], h⟩

theorem isIdChar_digit (c : Nat) (h : 48 ≤ c ∧ c ≤ 57) : isIdChar c = true := by
  simp [isIdChar, isDigitU_ascii c h]

/-- an identifier followed by a decimal numeral is an identifier -/
theorem validId_prefixed (pfx : Str) (hp : ValidId pfx) (n : Nat) : ValidId (pfx ++ natToStr n) := by
  obtain ⟨⟨c, cs, rfl, hc⟩, hall⟩ := hp
  refine ⟨⟨c, cs ++ natToStr n, rfl, hc⟩, ?_⟩
  intro d hd
  rcases List.mem_append.1 hd with hd | hd
  · exact hall d hd
  · exact isIdChar_digit d (natToStr_digits n d hd)

theorem prefixed_inj (pfx : Str) (a b : Nat) (h : pfx ++ natToStr a = pfx ++ natToStr b) : a = b :=
  natToStr_inj a b (List.append_cancel_left h)

theorem validId_a : ValidId (strOf "a") := ⟨⟨97, [], by decide, by decide⟩, by decide⟩

/-- a decimal numeral is **not** an identifier of the Aspartix reader (its first character is a
digit, the pattern is `[_[:alpha:]][_[:alpha:]\d]*`) -/
theorem not_validId_natToStr (n : Nat) : ¬ ValidId (natToStr n) := by
  rintro ⟨⟨c, cs, e, hc⟩, _⟩
  have hd := natToStr_digits n c (by rw [e]; exact List.mem_cons_self ..)
  simp only [isIdStart, isAlphaA, Bool.or_eq_true, Bool.and_eq_true, decide_eq_true_eq, beq_iff_eq] at hc
  omega

/-- an argument line whose label is a decimal numeral is rejected by the line parser -/
theorem apxLine_numeral (st : ApxSt) (n : Nat) :
    apxLine st (some (apxArgLine (natToStr n))) = .error "syntax error" := by
  have hne := natToStr_ne_nil n
  cases hs : natToStr n with
  | nil => exact absurd hs hne
  | cons c cs =>
    have hd := natToStr_digits n c (by rw [hs]; exact List.mem_cons_self ..)
    have hcw : isWs c = false := isWs_false_of c (by omega)
    have hci : isIdStart c = false := by
      rw [Bool.eq_false_iff]; intro hc
      simp only [isIdStart, isAlphaA, Bool.or_eq_true, Bool.and_eq_true, decide_eq_true_eq, beq_iff_eq] at hc
      omega
    have h1 : matchArg (apxArgLine (c :: cs)) = none := by
      unfold matchArg apxArgLine
      rw [strOf_arg, strOf_close]
      have e1 : ([97, 114, 103, 40] ++ (c :: cs) ++ [41, 46]).dropWhile isWs =
          [97, 114, 103, 40] ++ (c :: cs) ++ [41, 46] := by simp [isWs_97]
      have e2 : dropPrefix [97, 114, 103, 40] ([97, 114, 103, 40] ++ (c :: cs) ++ [41, 46]) =
          some (c :: (cs ++ [41, 46])) := by simp [dropPrefix]
      rw [e1, e2]
      simp [scanName, hcw, hci]
    have h2 : matchAtt (apxArgLine (c :: cs)) = none := by
      unfold matchAtt apxArgLine
      rw [strOf_att, strOf_arg]
      have e1 : ([97, 114, 103, 40] ++ (c :: cs) ++ strOf ").").dropWhile isWs =
          [97, 114, 103, 40] ++ (c :: cs) ++ strOf ")." := by simp [isWs_97]
      have e2 : dropPrefix [97, 116, 116, 40] ([97, 114, 103, 40] ++ (c :: cs) ++ strOf ").") = none := by
        simp [dropPrefix]
      rw [e1, e2]
    unfold apxLine
    simp only [apxArgLine_notBlank, h1, h2, Bool.false_eq_true, if_false]

theorem printable_numeral (n : Nat) : ∀ c ∈ natToStr n, 32 ≤ c ∧ c < 127 := fun c hc => by
  have := natToStr_digits n c hc; omega

/-- the text written for a non-empty list of numeral labels is rejected by the Aspartix reader -/
theorem apx_numerals_rejected (n : Nat) (ns : List Nat) (atts : List (Nat × Nat)) :
    readApx (encodeUtf8 (writeApx ((n :: ns).map natToStr)
        (atts.map (fun p => (natToStr p.1, natToStr p.2))))) = .error "syntax error" := by
  unfold readApx
  rw [writeApx_eq, lines_encode_flatMap]
  · simp only [List.map_cons, List.cons_append, foldLines, apxLine_numeral]
  · intro l hl
    apply lineOk_of_printable
    intro c hc
    rcases List.mem_append.1 hl with hl | hl
    · obtain ⟨x, hx, rfl⟩ := List.mem_map.1 hl
      obtain ⟨k, _, rfl⟩ := List.mem_map.1 hx
      simp only [apxArgLine, strOf_arg, strOf_close, List.mem_append, List.mem_cons, List.not_mem_nil,
        or_false] at hc
      rcases hc with (hc | hc) | hc
      · omega
      · exact printable_numeral k c hc
      · omega
    · obtain ⟨q, hq, rfl⟩ := List.mem_map.1 hl
      obtain ⟨p, _, rfl⟩ := List.mem_map.1 hq
      simp only [apxAttLine, strOf_att, strOf_close, List.mem_append, List.mem_cons, List.not_mem_nil,
        or_false] at hc
      rcases hc with (((hc | hc) | hc) | hc) | hc
      · omega
      · exact printable_numeral _ c hc
      · omega
      · exact printable_numeral _ c hc
      · omega

end IO

/-- instance: labels named `pfx<l>` for an identifier `pfx` -/
theorem store_write_read_prefixed (pfx : Str) (hp : ValidId pfx) (ops : List StoreOp) (s : Store)
    (hs : Store.runOps Store.empty ops = some s) :
    let nameOf := fun l : Nat => pfx ++ natToStr l
    let labels := s.liveArgs.map (fun p => nameOf p.2)
    let lab := fun i => nameOf ((s.labelOf i).getD 0)
    let atts := s.iterAttacks.map (fun p => (lab p.1, lab p.2))
    ∃ attIdx : List (Nat × Nat),
      readApx (encodeUtf8 (writeApx labels atts)) = .ok ⟨labels, attIdx⟩ ∧
      attIdx.length = s.iterAttacks.length ∧
      (∀ k (hk : k < attIdx.length),
         ∃ a b, s.iterAttacks[k]? = some (a, b) ∧
           (s.liveArgs.map (·.1))[(attIdx[k]).1]? = some a ∧ (s.liveArgs.map (·.1))[(attIdx[k]).2]? = some b) :=
  store_write_read ops s hs (fun l => pfx ++ natToStr l) (prefixed_inj pfx) (validId_prefixed pfx hp)

/-- instance: the default naming of the harness, `a<l>` -/
theorem store_write_read_default (ops : List StoreOp) (s : Store)
    (hs : Store.runOps Store.empty ops = some s) :
    let nameOf := fun l : Nat => strOf "a" ++ natToStr l
    let labels := s.liveArgs.map (fun p => nameOf p.2)
    let lab := fun i => nameOf ((s.labelOf i).getD 0)
    let atts := s.iterAttacks.map (fun p => (lab p.1, lab p.2))
    ∃ attIdx : List (Nat × Nat),
      readApx (encodeUtf8 (writeApx labels atts)) = .ok ⟨labels, attIdx⟩ ∧
      attIdx.length = s.iterAttacks.length ∧
      (∀ k (hk : k < attIdx.length),
         ∃ a b, s.iterAttacks[k]? = some (a, b) ∧
           (s.liveArgs.map (·.1))[(attIdx[k]).1]? = some a ∧ (s.liveArgs.map (·.1))[(attIdx[k]).2]? = some b) :=
  store_write_read_prefixed (strOf "a") validId_a ops s hs

/-- the driver's verdict on the default naming, for every history -/
theorem store_write_read_driver_default (ops : List StoreOp) :
    let nameOf := fun l : Nat => strOf "a" ++ natToStr l
    let s := ops.foldl (fun s o => match s.step o with | .ok s' => s' | .err s' => s' | .panic => s) Store.empty
    let labels := s.liveArgs.map (fun p => nameOf p.2)
    let lab := fun i => nameOf ((s.labelOf i).getD 0)
    let atts := s.iterAttacks.map (fun p => (lab p.1, lab p.2))
    readApx (encodeUtf8 (writeApx labels atts)) =
      .ok ⟨labels, atts.map (fun p => ((idxOf labels p.1).getD 9999, (idxOf labels p.2).getD 9999))⟩ :=
  store_write_read_driver ops (fun l => strOf "a" ++ natToStr l) (prefixed_inj _) (validId_prefixed _ validId_a)

/-- **the bare `usize` labels are not an instance.**  With `nameOf := natToStr` (what
`AspartixWriter` prints for an `AAFramework<usize>`, e.g. one built by the ICCMA reader) the text
written for any store with at least one live argument is *rejected* by the Aspartix reader: its
first line is `arg(<numeral>).`, and a numeral is not an identifier.  (No invariant is needed.) -/
theorem store_write_read_usize_rejected (s : Store) (hne : s.liveArgs ≠ []) :
    let labels := s.liveArgs.map (fun p => natToStr p.2)
    let lab := fun i => natToStr ((s.labelOf i).getD 0)
    let atts := s.iterAttacks.map (fun p => (lab p.1, lab p.2))
    readApx (encodeUtf8 (writeApx labels atts)) = .error "syntax error" := by
  intro labels lab atts
  cases hl : s.liveArgs with
  | nil => exact absurd hl hne
  | cons x xs =>
    have e1 : labels = (x.2 :: xs.map (·.2)).map natToStr := by
      simp [labels, hl, List.map_map, Function.comp]
    have e2 : atts = (s.iterAttacks.map (fun p => ((s.labelOf p.1).getD 0, (s.labelOf p.2).getD 0))).map
        (fun p => (natToStr p.1, natToStr p.2)) := by
      simp [atts, lab, List.map_map, Function.comp]
    rw [e1, e2]
    exact apx_numerals_rejected _ _ _

example : readApx (encodeUtf8 (strOf "arg(1).\n")) = .error "syntax error" :=
  apx_numerals_rejected 1 [] []

end Crusta
