import Driver.Main
