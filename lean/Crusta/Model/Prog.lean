import Crusta.Model.Cnf

/-!
# Solver procedures as programs over a SAT-oracle interface

A solver procedure of the Rust code is modelled as a value of the inductive type `Prog α`: a tree
whose nodes are the calls the code makes on `SatSolver` objects (`factory()`, `reserve`,
`add_clause`, `n_vars`, `solve_under_assumptions`).  The continuation of a `solve` node receives
`some model` or `none` (UNSAT) only: this mirrors `SolvingResult::unwrap_model`, through which every
solve site of the solvers goes; an `Unknown` reply is handled by the *interpreter*, which aborts.

`interp` runs a program against a **list of replies** (so the same definition is executed by the
driver on the replies recorded from the implementation, and quantified over in the theorems) and
returns the trace of events together with the outcome.
-/

namespace Crusta

abbrev Model := List (Option Bool)

inductive Reply
  | sat (m : Model)
  | unsat
  | unknown
deriving Repr, DecidableEq

inductive Prog (α : Type) : Type
  | pure (a : α)
  | newSolver (k : Nat → Prog α)
  | reserve (s n : Nat) (k : Prog α)
  | clause (s : Nat) (c : Clause) (k : Prog α)
  | nVars (s : Nat) (k : Nat → Prog α)
  | solve (s : Nat) (assumps : List Lit) (k : Option Model → Prog α)
  /-- a `panic!` / `unwrap` failure in the code that is not a SAT failure -/
  | crash (msg : String)

namespace Prog

def bind {α β : Type} : Prog α → (α → Prog β) → Prog β
  | .pure a, f => f a
  | .newSolver k, f => .newSolver (fun i => bind (k i) f)
  | .reserve s n k, f => .reserve s n (bind k f)
  | .clause s c k, f => .clause s c (bind k f)
  | .nVars s k, f => .nVars s (fun v => bind (k v) f)
  | .solve s a k, f => .solve s a (fun r => bind (k r) f)
  | .crash m, _ => .crash m

instance : Monad Prog where
  pure := Prog.pure
  bind := Prog.bind

def mkSolver : Prog Nat := .newSolver .pure
def doReserve (s n : Nat) : Prog Unit := .reserve s n (.pure ())
def addClause (s : Nat) (c : Clause) : Prog Unit := .clause s c (.pure ())
def addClauses (s : Nat) : Cnf → Prog Unit
  | [] => .pure ()
  | c :: cs => .clause s c (addClauses s cs)
def getNVars (s : Nat) : Prog Nat := .nVars s .pure
def doSolve (s : Nat) (a : List Lit) : Prog (Option Model) := .solve s a .pure

end Prog

/-- events observable at the `SatSolver` interface -/
inductive Ev
  | new (s : Nat)
  | reserve (s n : Nat)
  | clause (s : Nat) (c : Clause)
  | nvars (s v : Nat)
  | solve (s : Nat) (assumps : List Lit)
  | reply (s : Nat) (r : Reply)
deriving Repr, DecidableEq

inductive Outcome (α : Type)
  | done (a : α)
  /-- the backend failed to decide: the query is aborted, no answer -/
  | abort
  /-- a non-SAT panic of the code -/
  | crashed (msg : String)
  /-- the reply list was exhausted (only possible when replaying a truncated trace) -/
  | starved
deriving Repr

/-- per-solver bookkeeping needed to answer `n_vars()`: largest variable seen in clauses or
assumptions (CaDiCaL's `max_variable`) and the largest reservation -/
structure SolverSt where
  maxVar : Nat := 0
  reserved : Nat := 0
deriving Repr

def SolverSt.nVars (s : SolverSt) : Nat := max s.maxVar s.reserved

def litsMax (l : List Lit) : Nat := l.foldl (fun m x => max m x.var) 0

structure World where
  solvers : List SolverSt := []
  trace : List Ev := []      -- reversed
  calls : Nat := 0

def World.upd (w : World) (s : Nat) (f : SolverSt → SolverSt) : World :=
  { w with solvers := w.solvers.set s (f (w.solvers.getD s {})) }

def World.onNew (w : World) : World :=
  { w with solvers := w.solvers ++ [{}], trace := .new w.solvers.length :: w.trace }
def World.onReserve (w : World) (s n : Nat) : World :=
  { (w.upd s (fun st => { st with reserved := max st.reserved n })) with trace := .reserve s n :: w.trace }
def World.onClause (w : World) (s : Nat) (c : Clause) : World :=
  { (w.upd s (fun st => { st with maxVar := max st.maxVar (litsMax c) })) with trace := .clause s c :: w.trace }
def World.nVarsOf (w : World) (s : Nat) : Nat := (w.solvers.getD s {}).nVars
def World.onNVars (w : World) (s : Nat) : World :=
  { w with trace := .nvars s (w.nVarsOf s) :: w.trace }
def World.onSolve (w : World) (s : Nat) (a : List Lit) : World :=
  { (w.upd s (fun st => { st with maxVar := max st.maxVar (litsMax a) })) with
    trace := .solve s a :: w.trace, calls := w.calls + 1 }
def World.onReply (w : World) (s : Nat) (r : Reply) : World :=
  { w with trace := .reply s r :: w.trace }

def interp {α : Type} : Prog α → List Reply → World → Outcome α × World
  | .pure a, _, w => (.done a, w)
  | .crash m, _, w => (.crashed m, w)
  | .newSolver k, rs, w => interp (k w.solvers.length) rs w.onNew
  | .reserve s n k, rs, w => interp k rs (w.onReserve s n)
  | .clause s c k, rs, w => interp k rs (w.onClause s c)
  | .nVars s k, rs, w => interp (k (w.nVarsOf s)) rs (w.onNVars s)
  | .solve s a k, [], w => (.starved, w.onSolve s a)
  | .solve s a _, .unknown :: _, w => (.abort, (w.onSolve s a).onReply s .unknown)
  | .solve s a k, .unsat :: rs', w => interp (k none) rs' ((w.onSolve s a).onReply s .unsat)
  | .solve s a k, .sat m :: rs', w => interp (k (some m)) rs' ((w.onSolve s a).onReply s (.sat m))

@[simp] theorem World.onNew_calls (w : World) : w.onNew.calls = w.calls := rfl
@[simp] theorem World.onReserve_calls (w : World) (s n : Nat) : (w.onReserve s n).calls = w.calls := rfl
@[simp] theorem World.onClause_calls (w : World) (s : Nat) (c : Clause) : (w.onClause s c).calls = w.calls := rfl
@[simp] theorem World.onNVars_calls (w : World) (s : Nat) : (w.onNVars s).calls = w.calls := rfl
@[simp] theorem World.onSolve_calls (w : World) (s : Nat) (a : List Lit) : (w.onSolve s a).calls = w.calls + 1 := rfl
@[simp] theorem World.onReply_calls (w : World) (s : Nat) (r : Reply) : (w.onReply s r).calls = w.calls := rfl

def runProg {α : Type} (p : Prog α) (rs : List Reply) : Outcome α × World := interp p rs {}

end Crusta
