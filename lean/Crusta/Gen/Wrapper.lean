/-! Regenerated from /repo/src/main_iccma23.rs by tools/gen_from_source.py on every run. Do not edit. -/

namespace Crusta.Gen

def wrapperCommonArgs : List String := ["--logging-level", "off"]
def wrapperSpecialInvocation : List String := ["--problems"]
def wrapperSubcommands : List String := ["authors", "problems", "solve"]
def wrapperSolveTail : List String := ["--with-certificate", "--reader", "iccma23"]

end Crusta.Gen
