"""C10: CNF encoders against the Lean encoder model, plus the bounded all-models oracle."""
import gen
from engine import Property, Finding

ENCODERS = ["aux_cf", "aux_adm", "aux_co", "exp_cf", "exp_co", "hyb", "stb", "default_complete", "default_cf"]


def canon_clause(l):
    lits = sorted(int(x) for x in l.split(" ")[2:] if x)
    return tuple(lits)


class C10(Property):
    id = "C10"
    families = ["enc"]
    rule = ("compact frameworks (ICCMA route incl. duplicate attack lines, and removal-free histories): exhaustive digraphs n<=2 (quick) / n<=3 (thorough), random and structured up to 7 arguments, sparse frameworks of 9-30 arguments with a hub of 7-12 attackers (clause-level comparison only), funnels on both sides "
            "of the hybrid threshold (defender-set products 16, 31/32/33 by mixed sizes, 64); x 9 public encoder constructors x {plain, range}; compared: reserve calls, clause multiset, n_vars, arg_to_lit, first_range_var, "
            "assignment_to_extension on random assignments, second encoding on the same encoder object; bounded all-models oracle when <= 16 variables; non-trivial = framework with an attack")
    assumptions = ["permutator::cart_prod modelled as the cartesian product (order ignored)",
                   "bounded all-models enumeration (<= 16 variables) is used only to exhibit a failing input, never as the claim"]

    def frameworks(self, tier, rng):
        fws = []
        for n in range(0, 3 if tier == "quick" else 4):
            fws += list(gen.all_digraphs(n))
        for _ in range(330 if tier == "quick" else 9000):
            fws.append(gen.random_framework(rng, 7))
        for _ in range(25 if tier == "quick" else 600):
            fws.append(gen.medium_framework(rng, 9, 30))
        for (a, b) in [(4, 2), (5, 2), (6, 2), (2, 4), (3, 3), (1, 31), (1, 32), (1, 33), (2, 6), (3, 4)]:
            fws.append(gen.funnel(a, b))
        # mixed-size defender sets around the threshold: 4*8=32, 3*11=33, 31
        for sizes in ([4, 8], [3, 11], [31], [2, 2, 2, 2, 2], [2, 2, 2, 2], [16, 2], [5, 6]):
            atts = []
            nxt = 1
            attackers = []
            for s in sizes:
                attackers.append(nxt)
                atts.append((nxt, 0))
                nxt += 1
            for b, s in zip(attackers, sizes):
                for _ in range(s):
                    atts.append((nxt, b))
                    atts.append((0, nxt))
                    nxt += 1
            fws.append((nxt, atts))
        return fws

    def cases(self, tier, rng):
        lines = []
        for (n, atts) in self.frameworks(tier, rng):
            if rng.random() < 0.7:
                spec, _ = gen.spec_iccma(rng, n, atts)
            else:
                spec, _ = gen.spec_history(rng, n, atts, junk=False)
            encs = ENCODERS if n <= 3 else rng.sample(ENCODERS, 4)
            for e in encs:
                for rg in (0, 1):
                    if rg == 1 and e == "stb":
                        continue
                    nv = {"aux": 3 * n if rg else 2 * n}.get(e[:3], 2 * n if rg else n)
                    asgs = []
                    for _ in range(2):
                        k = rng.randint(0, nv + 2)
                        bits = "".join(rng.choice("+-") for _ in range(k)) + "?" * rng.randint(0, 2)
                        if bits:
                            asgs.append(bits)
                    extra = (" asg=" + "/".join(asgs)) if asgs else ""
                    tw = " twice=1" if rng.random() < 0.2 else ""
                    lines.append("enc x fw=%s enc=%s range=%d%s%s" % (spec, e, rg, extra, tw))
        return lines

    def judge(self, case_line, impl, model):
        fs = []
        enc = [t for t in case_line.split(" ") if t.startswith("enc=")][0][4:]
        rg = [t for t in case_line.split(" ") if t.startswith("range=")][0][6:]
        entry = "encoder %s range=%s" % (enc, rg)
        if any(l.startswith("panic") for l in impl):
            fs.append(Finding("input", case_line, "the encoder panicked: " + [l for l in impl if l.startswith("panic")][0][6:90], entry + " · panic"))
            return fs
        v = [l for l in model if l.startswith("verdict ")]
        if v and v[0].startswith("verdict BAD"):
            fs.append(Finding("input", case_line, v[0][12:], entry + " · " + v[0][12:]))
            return fs
        # correspondence
        for tag in ("E", "E2"):
            ic = sorted(canon_clause(l) for l in impl if l.startswith(tag + " c"))
            mc = sorted(canon_clause(l) for l in model if l.startswith(tag + " c"))
            ir = [l for l in impl if l.startswith(tag + " r")]
            mr = [l for l in model if l.startswith(tag + " r")]
            if ic != mc:
                only_i = [c for c in ic if c not in mc][:3]
                only_m = [c for c in mc if c not in ic][:3]
                fs.append(Finding("correspondence", case_line, "clause multiset differs from the Lean encoder model",
                                  entry + " · clauses differ", {"only_impl": only_i, "only_model": only_m}))
                return fs
            if ir != mr:
                fs.append(Finding("correspondence", case_line, "reserve call differs from the model", entry + " · reserve differs", {"impl": ir, "model": mr}))
                return fs
        for pre in ("N ", "N2 ", "L ", "F ", "D "):
            a = [l for l in impl if l.startswith(pre)]
            b = [l for l in model if l.startswith(pre)]
            if a != b:
                fs.append(Finding("correspondence", case_line, "%s line differs from the model" % pre.strip(), entry + " · %s differs" % pre.strip(),
                                  {"impl": a[:2], "model": b[:2]}))
                return fs
        return fs

    def same_class(self, f, cur):
        return f.signature == cur.signature

    def nontrivial(self, case_line):
        return ">" in case_line

    def shrink_candidates(self, case_line):
        toks = case_line.split(" ")
        out = []
        for ti, t in enumerate(toks):
            if t.startswith("fw=i:"):
                _, n, a = (t[3:].split(":") + [""])[:3]
                n = int(n)
                atts = [x for x in a.split(",") if x]
                for i in range(len(atts)):
                    out.append(" ".join(toks[:ti] + ["fw=i:%d:%s" % (n, ",".join(atts[:i] + atts[i + 1:]))] + toks[ti + 1:]))
                if n > 0:
                    keep = [x for x in atts if str(n) not in x.split(">")]
                    out.append(" ".join(toks[:ti] + ["fw=i:%d:%s" % (n - 1, ",".join(keep))] + toks[ti + 1:]))
            if t.startswith("fw=h:"):
                ops = [o for o in t[5:].split(";") if o]
                for i in range(len(ops)):
                    out.append(" ".join(toks[:ti] + ["fw=h:" + ";".join(ops[:i] + ops[i + 1:])] + toks[ti + 1:]))
        out = [" ".join(t for t in c.split(" ") if not t.startswith("asg=")) for c in out]
        return out[:80]

    def stats(self, cases, impl, model):
        from collections import Counter
        c = Counter()
        judged = Counter()
        for l in cases:
            p = dict(t.split("=", 1) for t in l.split(" ")[2:] if "=" in t)
            c["%s/range=%s" % (p["enc"], p["range"])] += 1
            for m in model.get(l.split(" ")[1], []):
                if m.startswith("verdict"):
                    judged[m] += 1
        return {"distribution": {"encoder": dict(c), "oracle_verdicts": dict(judged)}}
