import Driver.Trace
import Driver.DynAtt
import Crusta.Model.Dyn

/-! Driver side of the dynamic-solver traces: the `Dyn` model is run on the same update / query
sequence; the replies recorded from the implementation feed the model's `solve` nodes. -/

namespace Driver
open Crusta Crusta.Dyn

def dsemOfKind (k : String) : Option DSem :=
  match k with
  | "co" => some .CO | "st" => some .ST | "pr" => some .PR | _ => none

def renderIds (d : DState) (denseLabels : List Nat) (ids : List Nat) : String :=
  if ids.isEmpty then "[]" else
  ",".intercalate (ids.map (fun i => match d.af.labelOf i with
    | none => "?"
    | some l => match posOf denseLabels l with | some p => toString p | none => s!"?{l}"))

def renderIdsS (st : Store) (denseLabels : List Nat) (ids : List Nat) : String :=
  if ids.isEmpty then "[]" else
  ",".intercalate (ids.map (fun i => match st.labelOf i with
    | none => "?"
    | some l => match posOf denseLabels l with | some p => toString p | none => s!"?{l}"))

/-- the recompute-from-scratch wrapper: the model is the store itself plus the static solver's
program run on its view at every query -/
def runDummyTrace (sk : SolverKind) (lines : List String) : List String := Id.run do
  let some enc := encOf sk "def" | return []
  let mut st := Store.empty
  let mut world : World := {}
  let mut out : List String := []
  let mut rest := lines
  let mut stopped := false
  while !rest.isEmpty && !stopped do
    let l := rest.headD ""
    rest := rest.drop 1
    match toks l with
    | "U" :: tok :: _ =>
      match opOf tok with
      | none => out := s!"mU {tok} unparsable" :: out
      | some op =>
        match st.step op with
        | .ok s' => st := s'; out := s!"mU {tok} ok" :: out
        | .err s' => st := s'; out := s!"mU {tok} err" :: out
        | .panic => out := s!"mU {tok} panic" :: out; stopped := true
    | ["Q", what, lab] =>
      let chunk := rest.takeWhile (fun x => !(x.startsWith "ans " || x.startsWith "panic"))
      rest := rest.drop chunk.length
      let labels := match chunk.find? (fun x => x.startsWith "fw ") with
        | some f => natList (kvGetD (toks f) "labels" "-")
        | none => []
      let replies := chunk.filterMap parseReply
      let cert := what.endsWith "1"
      out := s!"mQ {what} {lab}" :: out
      match st.getArg (natOf lab) with
      | none => out := "mans CRASH no such argument" :: out; stopped := true
      | some id =>
        let entry : Entry := if what.startsWith "dc" then .dc cert [id] else .ds cert [id]
        match entryProg sk ⟨enc, 100000⟩ st.view entry with
        | none => out := "mans CRASH entry point not offered" :: out; stopped := true
        | some p =>
          let w0 : World := { world with trace := [], calls := 0 }
          let (oc, w) := interp p replies w0
          world := w
          for e in w.trace.reverse do
            out := s!"T {renderEv e}" :: out
          match oc with
          | .done (.acc a _) =>
            let c := if !cert then "-" else match a.cert with | none => "NONE" | some e => renderIdsS st labels e
            out := s!"mans ACC status={if a.status then "YES" else "NO"} cert={c}" :: out
          | .done _ => out := "mans CRASH unexpected answer kind" :: out; stopped := true
          | .abort => out := "mans ABORT" :: out; stopped := true
          | .crashed m => out := s!"mans CRASH {m}" :: out; stopped := true
          | .starved => out := "mans STARVED" :: out; stopped := true
    | _ => pure ()
  if stopped then out := "mstop" :: out
  return out.reverse

/-- model output for a `dyn` case with `trace=1`: `mU` per update, `T` lines and `mans` per query -/
def runDynTrace (lines : List String) : List String := Id.run do
  let inl := (lines.find? (fun l => l.startsWith "in ")).getD ""
  if kvGetD (toks inl) "trace" "0" == "0" then return []
  let kind := kvGetD (toks inl) "kind" ""
  if kind.startsWith "dummy_" then
    match solverKindOf (kind.drop 6).toString with
    | some sk => return runDummyTrace sk lines
    | none => return []
  if let some asem := attSemOfKind kind then
    return runDynAttTrace asem (factorOf (kvGetD (toks inl) "factor" "2")) lines
  let some sem := dsemOfKind kind | return []
  if kvGetD (toks inl) "trace" "0" == "0" then return []
  let mut d := DState.init sem
  let mut world : World := ({} : World).onNew
  let mut out : List String := ["T S 0 new"]
  let mut rest := lines
  let mut stopped := false
  while !rest.isEmpty && !stopped do
    let l := rest.headD ""
    rest := rest.drop 1
    match toks l with
    | "U" :: tok :: _ =>
      match opOf tok with
      | none => out := s!"mU {tok} unparsable" :: out
      | some op =>
        let (d', r) := d.update op
        d := d'
        out := s!"mU {tok} {match r with | .ok => "ok" | .err => "err" | .panic => "panic"}" :: out
        if r == .panic then stopped := true
    | ["Q", what, lab] =>
      let chunk := rest.takeWhile (fun x => !(x.startsWith "ans " || x.startsWith "panic"))
      rest := rest.drop chunk.length
      let labels := match chunk.find? (fun x => x.startsWith "fw ") with
        | some f => natList (kvGetD (toks f) "labels" "-")
        | none => []
      let replies := chunk.filterMap parseReply
      let q : DQuery := if what.startsWith "dc" then .cred else .skep
      let cert := what.endsWith "1"
      let w0 : World := { world with trace := [], calls := 0 }
      let (oc, w) := interp (query 100000 d q (natOf lab)) replies w0
      world := w
      out := s!"mQ {what} {lab}" :: out
      for e in w.trace.reverse do
        out := s!"T {renderEv e}" :: out
      match oc with
      | .done (d', a) =>
        d := d'
        let c := if !cert then "-" else match a.cert with | none => "NONE" | some e => renderIds d' labels e
        out := s!"mans ACC status={if a.status then "YES" else "NO"} cert={c}" :: out
      | .abort => out := "mans ABORT" :: out; stopped := true
      | .crashed m => out := s!"mans CRASH {m}" :: out; stopped := true
      | .starved => out := "mans STARVED" :: out; stopped := true
    | _ => pure ()
  if stopped then out := "mstop" :: out
  return out.reverse

end Driver
