import Crusta.Proofs.Decomp
import Crusta.Proofs.ViewSpec
import Crusta.Proofs.GSem2

/-!
# All seven semantics decompose over a partition of the live arguments into closed parts

* bridges `AF.g_semistable`, `AF.g_stage`, `AF.g_ideal`, `AF.g_grounded` (the `G`-level definitions
  of `GSem2.lean` are the textbook ones of `Spec/AF.lean` on a compact framework);
* `Parts g parts`: `parts` is a list of pairwise disjoint sets that no attack leaves or enters and
  that cover the live arguments;
* `cf_parts … ideal_parts`: `g.X S ↔ ∀ U ∈ parts, (g.restrict U).X (inter S U)` for `S ⊆ live`;
* `inter_ofList_flatten`: the pieces of a flattened list of per-part lists.
-/

namespace Crusta

/-! ## Bridges to the compact definitions -/

theorem AF.g_cf (af : AF) (S : ASet) : af.g.CF S ↔ ConflictFree af S := by
  simp [G.CF, G.AttackedBy, AF.g, ConflictFree, AttackedBy, Sub]

theorem AF.g_admissible (af : AF) (S : ASet) : af.g.Admissible S ↔ Admissible af S := by
  simp [G.Admissible, G.CF, G.Defended, G.AttackedBy, AF.g, Admissible, ConflictFree, Defended, AttackedBy, Sub]

theorem AF.g_inRange (af : AF) (S : ASet) (a : Nat) : af.g.InRange S a ↔ InRange af S a := by
  simp [G.InRange, G.AttackedBy, AF.g, InRange, AttackedBy]

theorem AF.g_rangeSub (af : AF) (S T : ASet) : af.g.RangeSub S T ↔ RangeSub af S T := by
  simp [G.RangeSub, RangeSub, AF.g_inRange]

theorem AF.g_grounded (af : AF) (S : ASet) : af.g.Grounded S ↔ Grounded af S := by
  simp only [G.Grounded, Grounded, AF.g_complete]

theorem AF.g_semistable (af : AF) (S : ASet) : af.g.SemiStable S ↔ SemiStable af S := by
  simp only [G.SemiStable, SemiStable, AF.g_complete, AF.g_rangeSub]

theorem AF.g_stage (af : AF) (S : ASet) : af.g.Stage S ↔ Stage af S := by
  simp only [G.Stage, Stage, AF.g_cf, AF.g_rangeSub]

theorem AF.g_idealCand (af : AF) (S : ASet) : af.g.IdealCand S ↔ IdealCand af S := by
  simp only [G.IdealCand, IdealCand, AF.g_admissible, AF.g_preferred]

theorem AF.g_ideal (af : AF) (S : ASet) : af.g.Ideal S ↔ Ideal af S := by
  simp only [G.Ideal, Ideal, AF.g_idealCand]

/-! ## Partitions into closed parts -/

structure Parts (g : G) (parts : List (Nat → Bool)) : Prop where
  closed : ∀ U ∈ parts, g.ClosedB U
  disjoint : parts.Pairwise (fun U V => ∀ a, ¬ (U a = true ∧ V a = true))
  cover : ∀ a, g.live a = true → ∃ U ∈ parts, U a = true

theorem pairwise_rel {α : Type} {R : α → α → Prop} (hsym : ∀ x y, R x y → R y x) :
    ∀ {l : List α}, l.Pairwise R → ∀ x ∈ l, ∀ y ∈ l, x = y ∨ R x y
  | [], _, x, hx, _, _ => by cases hx
  | z :: l, h, x, hx, y, hy => by
    rw [List.pairwise_cons] at h
    rcases List.mem_cons.1 hx with rfl | hx'
    · rcases List.mem_cons.1 hy with rfl | hy'
      · exact Or.inl rfl
      · exact Or.inr (h.1 y hy')
    · rcases List.mem_cons.1 hy with rfl | hy'
      · exact Or.inr (hsym _ _ (h.1 x hx'))
      · exact pairwise_rel hsym h.2 x hx' y hy'

theorem Parts.rel {g : G} {parts : List (Nat → Bool)} (hp : Parts g parts) {U V : Nat → Bool}
    (hU : U ∈ parts) (hV : V ∈ parts) : U = V ∨ ∀ a, ¬ (U a = true ∧ V a = true) :=
  pairwise_rel (fun _ _ h a hh => h a ⟨hh.2, hh.1⟩) hp.disjoint U hU V hV

/-- `T` on `U`, `S` elsewhere -/
def splice (U : Nat → Bool) (T S : ASet) : ASet := fun a => bif U a then T a else S a

theorem inter_splice_self {U : Nat → Bool} {T : ASet} (S : ASet) (hT : ∀ a, T a = true → U a = true) :
    inter (splice U T S) U = T := by
  funext a
  cases hU : U a with
  | true => simp [inter, splice, hU]
  | false =>
    have : T a = false := by
      cases hTa : T a with
      | false => rfl
      | true => rw [hT a hTa] at hU; cases hU
    simp [inter, splice, hU, this]

theorem inter_splice_disj {U V : Nat → Bool} (T S : ASet) (hd : ∀ a, ¬ (U a = true ∧ V a = true)) :
    inter (splice U T S) V = inter S V := by
  funext a
  cases hV : V a with
  | false => simp [inter, hV]
  | true =>
    have : U a = false := by
      cases hU : U a with
      | false => rfl
      | true => exact absurd ⟨hU, hV⟩ (hd a)
    simp [inter, splice, hV, this]

theorem restrict_live_iff {g : G} {U : Nat → Bool} {a : Nat} :
    (g.restrict U).live a = true ↔ (g.live a = true ∧ U a = true) := by
  simp [G.restrict]

section
variable {g : G} {parts : List (Nat → Bool)}

theorem splice_live {U : Nat → Bool} {T S : ASet} (hT : ∀ a, T a = true → (g.restrict U).live a = true)
    (hS : ∀ a, S a = true → g.live a = true) : ∀ a, splice U T S a = true → g.live a = true := by
  intro a ha
  cases hU : U a with
  | true =>
    simp only [splice, hU, cond_true] at ha
    exact (restrict_live_iff.1 (hT a ha)).1
  | false =>
    simp only [splice, hU, cond_false] at ha
    exact hS a ha

/-! ## The pointwise semantics -/

theorem cf_parts (hp : Parts g parts) (S : ASet) (hS : ∀ a, S a = true → g.live a = true) :
    g.CF S ↔ ∀ U ∈ parts, (g.restrict U).CF (inter S U) := by
  constructor
  · intro h U hU; exact ((cf_split (hp.closed U hU) S).1 h).1
  · intro h
    refine ⟨hS, fun a ha hatt => ?_⟩
    obtain ⟨U, hU, hUa⟩ := hp.cover a (hS a ha)
    exact (h U hU).2 a ((inter_true _ _ a).2 ⟨ha, hUa⟩)
      ((attackedBy_restrict (hp.closed U hU) S a hUa).2 hatt)

theorem adm_parts (hp : Parts g parts) (S : ASet) (hS : ∀ a, S a = true → g.live a = true) :
    g.Admissible S ↔ ∀ U ∈ parts, (g.restrict U).Admissible (inter S U) := by
  constructor
  · intro h U hU; exact ((adm_split (hp.closed U hU) S).1 h).1
  · intro h
    refine ⟨(cf_parts hp S hS).2 (fun U hU => (h U hU).1), fun a ha => ?_⟩
    obtain ⟨U, hU, hUa⟩ := hp.cover a (hS a ha)
    exact (defended_restrict (hp.closed U hU) S a hUa).1 ((h U hU).2 a ((inter_true _ _ a).2 ⟨ha, hUa⟩))

theorem complete_parts (hp : Parts g parts) (S : ASet) (hS : ∀ a, S a = true → g.live a = true) :
    g.Complete S ↔ ∀ U ∈ parts, (g.restrict U).Complete (inter S U) := by
  constructor
  · intro h U hU; exact ((complete_split (hp.closed U hU) S).1 h).1
  · intro h
    refine ⟨(adm_parts hp S hS).2 (fun U hU => (h U hU).1), fun a hl hd => ?_⟩
    obtain ⟨U, hU, hUa⟩ := hp.cover a hl
    have := (h U hU).2 a (restrict_live_iff.2 ⟨hl, hUa⟩) ((defended_restrict (hp.closed U hU) S a hUa).2 hd)
    exact ((inter_true _ _ a).1 this).1

theorem stable_parts (hp : Parts g parts) (S : ASet) (hS : ∀ a, S a = true → g.live a = true) :
    g.Stable S ↔ ∀ U ∈ parts, (g.restrict U).Stable (inter S U) := by
  constructor
  · intro h U hU; exact ((stable_split (hp.closed U hU) S).1 h).1
  · intro h
    refine ⟨(cf_parts hp S hS).2 (fun U hU => (h U hU).1), fun a hl hn => ?_⟩
    obtain ⟨U, hU, hUa⟩ := hp.cover a hl
    exact (attackedBy_restrict (hp.closed U hU) S a hUa).1
      ((h U hU).2 a (restrict_live_iff.2 ⟨hl, hUa⟩) (by simp [inter, hn]))

/-! ## The two orders decompose -/

theorem subsetS_down {S T : ASet} (h : SubsetS S T) (U : Nat → Bool) : SubsetS (inter S U) (inter T U) := by
  intro a ha
  obtain ⟨h1, h2⟩ := (inter_true _ _ a).1 ha
  exact (inter_true _ _ a).2 ⟨h a h1, h2⟩

theorem subsetS_up (hp : Parts g parts) (S T : ASet) (hS : ∀ a, S a = true → g.live a = true)
    (h : ∀ U ∈ parts, SubsetS (inter S U) (inter T U)) : SubsetS S T := by
  intro a ha
  obtain ⟨U, hU, hUa⟩ := hp.cover a (hS a ha)
  exact ((inter_true _ _ a).1 (h U hU a ((inter_true _ _ a).2 ⟨ha, hUa⟩))).1

theorem inRange_restrict {U : Nat → Bool} (hc : g.ClosedB U) (S : ASet) (a : Nat) (ha : U a = true) :
    (g.restrict U).InRange (inter S U) a ↔ g.InRange S a := by
  unfold G.InRange
  rw [attackedBy_restrict hc S a ha, inter_true]
  simp [ha]

theorem inRange_restrict_mem {U : Nat → Bool} (S : ASet) (a : Nat)
    (h : (g.restrict U).InRange (inter S U) a) : U a = true := by
  rcases h with h | ⟨b, ⟨_, _, hUa⟩, _⟩
  · exact ((inter_true _ _ a).1 h).2
  · exact hUa

theorem rangeSub_down {U : Nat → Bool} (hc : g.ClosedB U) {S T : ASet} (h : g.RangeSub S T) :
    (g.restrict U).RangeSub (inter S U) (inter T U) := by
  intro a ha
  have hUa := inRange_restrict_mem S a ha
  exact (inRange_restrict hc T a hUa).2 (h a ((inRange_restrict hc S a hUa).1 ha))

theorem rangeSub_up (hp : Parts g parts) (S T : ASet) (hS : ∀ a, S a = true → g.live a = true)
    (h : ∀ U ∈ parts, (g.restrict U).RangeSub (inter S U) (inter T U)) : g.RangeSub S T := by
  intro a ha
  have : ∃ U ∈ parts, U a = true := by
    rcases ha with hSa | ⟨b, hb, hSb⟩
    · exact hp.cover a (hS a hSa)
    · obtain ⟨U, hU, hUb⟩ := hp.cover b (hS b hSb)
      exact ⟨U, hU, by rw [← hp.closed U hU b a hb]; exact hUb⟩
  obtain ⟨U, hU, hUa⟩ := this
  have hc := hp.closed U hU
  exact (inRange_restrict hc T a hUa).1 (h U hU a ((inRange_restrict hc S a hUa).2 ha))

theorem rangeSub_refl (g : G) (S : ASet) : g.RangeSub S S := fun _ h => h

/-! ## Maximal elements of a decomposing property for a decomposing preorder -/

theorem max_parts (hp : Parts g parts) (B : G → ASet → Prop) (Le : G → ASet → ASet → Prop)
    (hBU : ∀ U ∈ parts, ∀ T, B (g.restrict U) T → ∀ a, T a = true → (g.restrict U).live a = true)
    (hBl : ∀ T, B g T → ∀ a, T a = true → g.live a = true)
    (hB : ∀ T, (∀ a, T a = true → g.live a = true) → (B g T ↔ ∀ U ∈ parts, B (g.restrict U) (inter T U)))
    (hrefl : ∀ U ∈ parts, ∀ T, Le (g.restrict U) T T)
    (hdown : ∀ S T, Le g S T → ∀ U ∈ parts, Le (g.restrict U) (inter S U) (inter T U))
    (hup : ∀ S T, (∀ a, S a = true → g.live a = true) →
      (∀ U ∈ parts, Le (g.restrict U) (inter S U) (inter T U)) → Le g S T)
    (S : ASet) (hS : ∀ a, S a = true → g.live a = true) :
    (B g S ∧ ∀ T, B g T → Le g S T → Le g T S) ↔
      ∀ U ∈ parts, (B (g.restrict U) (inter S U) ∧
        ∀ T, B (g.restrict U) T → Le (g.restrict U) (inter S U) T → Le (g.restrict U) T (inter S U)) := by
  constructor
  · rintro ⟨hBS, hmax⟩ U hU
    refine ⟨(hB S hS).1 hBS U hU, fun T hT hle => ?_⟩
    have hTU : ∀ a, T a = true → U a = true := fun a ha => (restrict_live_iff.1 (hBU U hU T hT a ha)).2
    have hlive := splice_live (hBU U hU T hT) hS
    have hBT' : B g (splice U T S) := by
      refine (hB _ hlive).2 (fun V hV => ?_)
      rcases hp.rel hU hV with rfl | hd
      · rw [inter_splice_self S hTU]; exact hT
      · rw [inter_splice_disj T S hd]; exact (hB S hS).1 hBS V hV
    have hle' : Le g S (splice U T S) := by
      refine hup _ _ hS (fun V hV => ?_)
      rcases hp.rel hU hV with rfl | hd
      · rw [inter_splice_self S hTU]; exact hle
      · rw [inter_splice_disj T S hd]; exact hrefl V hV _
    have := hdown _ _ (hmax _ hBT' hle') U hU
    rwa [inter_splice_self S hTU] at this
  · intro h
    have hBS : B g S := (hB S hS).2 (fun U hU => (h U hU).1)
    refine ⟨hBS, fun T hT hle => hup T S (hBl T hT) (fun U hU => ?_)⟩
    exact (h U hU).2 (inter T U) ((hB T (hBl T hT)).1 hT U hU) (hdown S T hle U hU)

theorem preferred_parts (hp : Parts g parts) (S : ASet) (hS : ∀ a, S a = true → g.live a = true) :
    g.Preferred S ↔ ∀ U ∈ parts, (g.restrict U).Preferred (inter S U) :=
  max_parts hp G.Admissible (fun _ => SubsetS)
    (fun _ _ _ h => h.1.1) (fun _ h => h.1.1) (adm_parts hp)
    (fun _ _ _ _ h => h) (fun _ _ h U _ => subsetS_down h U) (subsetS_up hp) S hS

theorem semistable_parts (hp : Parts g parts) (S : ASet) (hS : ∀ a, S a = true → g.live a = true) :
    g.SemiStable S ↔ ∀ U ∈ parts, (g.restrict U).SemiStable (inter S U) :=
  max_parts hp G.Complete G.RangeSub
    (fun _ _ _ h => h.1.1.1) (fun _ h => h.1.1.1) (complete_parts hp)
    (fun _ _ _ => rangeSub_refl _ _) (fun _ _ h U hU => rangeSub_down (hp.closed U hU) h) (rangeSub_up hp) S hS

theorem stage_parts (hp : Parts g parts) (S : ASet) (hS : ∀ a, S a = true → g.live a = true) :
    g.Stage S ↔ ∀ U ∈ parts, (g.restrict U).Stage (inter S U) :=
  max_parts hp G.CF G.RangeSub
    (fun _ _ _ h => h.1) (fun _ h => h.1) (cf_parts hp)
    (fun _ _ _ => rangeSub_refl _ _) (fun _ _ h U hU => rangeSub_down (hp.closed U hU) h) (rangeSub_up hp) S hS

/-! ## Grounded: the least complete extension -/

theorem grounded_parts (hp : Parts g parts) (S : ASet) (hS : ∀ a, S a = true → g.live a = true) :
    g.Grounded S ↔ ∀ U ∈ parts, (g.restrict U).Grounded (inter S U) := by
  constructor
  · rintro ⟨hC, hleast⟩ U hU
    refine ⟨(complete_parts hp S hS).1 hC U hU, fun T hT a ha => ?_⟩
    have hTl : ∀ a, T a = true → (g.restrict U).live a = true := hT.1.1.1
    have hTU : ∀ a, T a = true → U a = true := fun a ha => (restrict_live_iff.1 (hTl a ha)).2
    have hC' : g.Complete (splice U T S) := by
      refine (complete_parts hp _ (splice_live hTl hS)).2 (fun V hV => ?_)
      rcases hp.rel hU hV with rfl | hd
      · rw [inter_splice_self S hTU]; exact hT
      · rw [inter_splice_disj T S hd]; exact (complete_parts hp S hS).1 hC V hV
    obtain ⟨hSa, hUa⟩ := (inter_true _ _ a).1 ha
    have := hleast _ hC' a hSa
    simpa [splice, hUa] using this
  · intro h
    refine ⟨(complete_parts hp S hS).2 (fun U hU => (h U hU).1), fun T hT => ?_⟩
    have hTl : ∀ a, T a = true → g.live a = true := hT.1.1.1
    exact subsetS_up hp S T hS (fun U hU => (h U hU).2 _ ((complete_parts hp T hTl).1 hT U hU))

end

/-! ## Existence of preferred extensions on a bounded universe -/

theorem countP_lt_of (p q : Nat → Bool) (hpq : ∀ a, p a = true → q a = true) (a : Nat)
    (hq : q a = true) (hpa : p a = false) : ∀ (l : List Nat), a ∈ l → l.countP p < l.countP q
  | [], h => by cases h
  | x :: xs, h => by
    rw [List.countP_cons, List.countP_cons]
    rcases List.mem_cons.1 h with rfl | h'
    · have := List.countP_mono_left (l := xs) (p := p) (q := q) (fun x _ hx => hpq x hx)
      simp [hq, hpa]; omega
    · have := countP_lt_of p q hpq a hq hpa xs h'
      cases hpx : p x with
      | false => simp; omega
      | true => simp [hpq x hpx]; omega

theorem G.exists_preferred_above (g : G) (hfin : ∃ n, ∀ a, g.live a = true → a < n) (S : ASet)
    (hS : g.Admissible S) : ∃ P, g.Preferred P ∧ SubsetS S P := by
  obtain ⟨n, hn⟩ := hfin
  suffices H : ∀ k (S : ASet), g.Admissible S → n - (List.range n).countP S < k →
      ∃ P, g.Preferred P ∧ SubsetS S P from H _ S hS (Nat.lt_succ_self _)
  intro k
  induction k with
  | zero => intro S _ h; omega
  | succ k ih =>
    intro S hS hk
    by_cases hmax : ∀ T, g.Admissible T → SubsetS S T → SubsetS T S
    · exact ⟨S, ⟨hS, hmax⟩, fun _ h => h⟩
    · obtain ⟨T, hT⟩ := Classical.not_forall.1 hmax
      obtain ⟨hTadm, hT⟩ := Classical.not_imp.1 hT
      obtain ⟨hST, hT⟩ := Classical.not_imp.1 hT
      obtain ⟨a, ha⟩ := Classical.not_forall.1 hT
      obtain ⟨hTa, hSa⟩ := Classical.not_imp.1 ha
      have hSa' : S a = false := by simpa using hSa
      have halt : a < n := hn a (hTadm.1.1 a hTa)
      have hlt := countP_lt_of S T hST a hTa hSa' (List.range n) (List.mem_range.2 halt)
      have hle : (List.range n).countP T ≤ n := by
        have := List.countP_le_length (p := T) (l := List.range n)
        simpa using this
      obtain ⟨P, hP, hTP⟩ := ih T hTadm (by omega)
      exact ⟨P, hP, fun b hb => hTP b (hST b hb)⟩

theorem G.admissible_empty (g : G) : g.Admissible (fun _ => false) := by
  refine ⟨⟨?_, ?_⟩, ?_⟩ <;> intro a ha <;> cases ha

theorem G.exists_preferred (g : G) (hfin : ∃ n, ∀ a, g.live a = true → a < n) : ∃ P, g.Preferred P := by
  obtain ⟨P, hP, _⟩ := g.exists_preferred_above hfin _ g.admissible_empty
  exact ⟨P, hP⟩

/-! ## Ideal -/

section
variable {g : G} {parts : List (Nat → Bool)}

theorem idealCand_parts (hp : Parts g parts) (hex : ∃ P, g.Preferred P) (S : ASet)
    (hS : ∀ a, S a = true → g.live a = true) :
    g.IdealCand S ↔ ∀ U ∈ parts, (g.restrict U).IdealCand (inter S U) := by
  constructor
  · rintro ⟨hA, hin⟩ U hU
    refine ⟨(adm_parts hp S hS).1 hA U hU, fun P hP a ha => ?_⟩
    obtain ⟨Q, hQ⟩ := hex
    have hQl : ∀ a, Q a = true → g.live a = true := hQ.1.1.1
    have hPl : ∀ a, P a = true → (g.restrict U).live a = true := hP.1.1.1
    have hPU : ∀ a, P a = true → U a = true := fun a ha => (restrict_live_iff.1 (hPl a ha)).2
    have hP' : g.Preferred (splice U P Q) := by
      refine (preferred_parts hp _ (splice_live hPl hQl)).2 (fun V hV => ?_)
      rcases hp.rel hU hV with rfl | hd
      · rw [inter_splice_self Q hPU]; exact hP
      · rw [inter_splice_disj P Q hd]; exact (preferred_parts hp Q hQl).1 hQ V hV
    obtain ⟨hSa, hUa⟩ := (inter_true _ _ a).1 ha
    have := hin _ hP' a hSa
    simpa [splice, hUa] using this
  · intro h
    refine ⟨(adm_parts hp S hS).2 (fun U hU => (h U hU).1), fun P hP => ?_⟩
    have hPl : ∀ a, P a = true → g.live a = true := hP.1.1.1
    exact subsetS_up hp S P hS (fun U hU => (h U hU).2 _ ((preferred_parts hp P hPl).1 hP U hU))

theorem ideal_parts (hp : Parts g parts) (hex : ∃ P, g.Preferred P) (S : ASet)
    (hS : ∀ a, S a = true → g.live a = true) :
    g.Ideal S ↔ ∀ U ∈ parts, (g.restrict U).Ideal (inter S U) :=
  max_parts hp G.IdealCand (fun _ => SubsetS)
    (fun _ _ _ h => h.1.1.1) (fun _ h => h.1.1.1) (idealCand_parts hp hex)
    (fun _ _ _ _ h => h) (fun _ _ h U _ => subsetS_down h U) (subsetS_up hp) S hS

theorem ideal_parts_fin (hp : Parts g parts) (hfin : ∃ n, ∀ a, g.live a = true → a < n) (S : ASet)
    (hS : ∀ a, S a = true → g.live a = true) :
    g.Ideal S ↔ ∀ U ∈ parts, (g.restrict U).Ideal (inter S U) :=
  ideal_parts hp (g.exists_preferred hfin) S hS

end

/-! ## Assembly: the pieces of a flattened list of per-part lists -/

theorem inter_ofList_flatten (ls : List (List Nat)) (Us : List (Nat → Bool))
    (hlen : ls.length = Us.length)
    (hmem : ∀ (i : Nat) (l : List Nat) (U : Nat → Bool), ls[i]? = some l → Us[i]? = some U → ∀ a ∈ l, U a = true)
    (hdisj : Us.Pairwise (fun U V => ∀ a, ¬ (U a = true ∧ V a = true))) :
    ∀ (i : Nat) (l : List Nat) (U : Nat → Bool), ls[i]? = some l → Us[i]? = some U →
      inter (ofList ls.flatten) U = ofList l := by
  intro i l U hl hU
  funext a
  by_cases hal : a ∈ l
  · have h1 : a ∈ ls.flatten := List.mem_flatten.2 ⟨l, List.mem_of_getElem? hl, hal⟩
    have h2 := hmem i l U hl hU a hal
    simp [inter, ofList, h1, h2, hal]
  · have hr : ofList l a = false := by simp [ofList, hal]
    rw [hr]
    cases hc : inter (ofList ls.flatten) U a with
    | false => rfl
    | true =>
      exfalso
      obtain ⟨h1, hUa⟩ := (inter_true _ _ a).1 hc
      have h1' : a ∈ ls.flatten := by simpa [ofList] using h1
      obtain ⟨l', hl', hal'⟩ := List.mem_flatten.1 h1'
      obtain ⟨j, hj, hjl⟩ := List.getElem_of_mem hl'
      have hjU : j < Us.length := hlen ▸ hj
      have hV := hmem j l' Us[j] (by rw [List.getElem?_eq_getElem hj, hjl]) (List.getElem?_eq_getElem hjU) a hal'
      obtain ⟨hi, hil⟩ := List.getElem?_eq_some_iff.1 hl
      obtain ⟨hiU, hiU'⟩ := List.getElem?_eq_some_iff.1 hU
      have hpw := List.pairwise_iff_getElem.1 hdisj
      rcases Nat.lt_trichotomy i j with hij | hij | hij
      · exact hpw i j hiU hjU hij a ⟨hiU' ▸ hUa, hV⟩
      · subst hij
        rw [hil] at hjl; subst hjl; exact hal hal'
      · exact hpw j i hjU hiU hij a ⟨hV, hiU' ▸ hUa⟩

end Crusta
