import Crusta.Proofs.CliOutAux
import Crusta.Proofs.CliFile
import Crusta.Proofs.CliApx
import Crusta.Proofs.StaticNodup

/-!
# From the bytes of the instance file to the text printed on stdout

`ShownOK`: what the problem promises, stated on what a reader of stdout sees (`Shown`: the status
line and the printed set).  `cli_stdout_on_readable_file` / `cli_stdout_on_readable_apx_file`:
`cli_on_iccma_file` / `cli_on_apx_file` composed with the writers: the text printed for the answer
of every run parses back (`parseStdoutIccma` / `parseStdoutApx`) to something `ShownOK`.
-/

namespace Crusta.Cli
open Crusta Crusta.IO

/-! ## what the problem promises about what is shown -/

/-- **what stdout must show for the problem `t-σ`** on the graph `g`, `cert` = `--with-certificate`,
`a` = the queried argument (ignored for SE):
* SE: no status line; "NO" only if `g` has no `σ`-extension; a printed set is a `σ`-extension,
  listed without repetition;
* DC: a status line, YES iff some `σ`-extension contains `a`; a set is printed exactly when the
  certificate was requested and the status is YES, and it is an extension (under
  `witnessSem .DC σ`: `σ`, complete for DC-PR) that contains `a`, listed without repetition;
* DS: a status line, YES iff every `σ`-extension contains `a`; a set is printed exactly when the
  certificate was requested and the status is NO, and it is a `σ`-extension that does not contain
  `a`, listed without repetition. -/
def ShownOK (t : Task) (σ : Sem) (g : G) (cert : Bool) (a : Nat) (sh : Shown) : Prop :=
  match t with
  | .SE =>
    sh.status = none ∧
    (sh.ext = none → ¬ ∃ S, σ.GExt g S) ∧
    (∀ e, sh.ext = some e → σ.GExt g (ofList e) ∧ e.Nodup)
  | .DC =>
    (sh.status = some true ∨ sh.status = some false) ∧
    (sh.status = some true ↔ ∃ S, σ.GExt g S ∧ S a = true) ∧
    (sh.ext ≠ none ↔ (cert = true ∧ sh.status = some true)) ∧
    (∀ e, sh.ext = some e → (witnessSem .DC σ).GExt g (ofList e) ∧ a ∈ e ∧ e.Nodup)
  | .DS =>
    (sh.status = some true ∨ sh.status = some false) ∧
    (sh.status = some true ↔ ∀ S, σ.GExt g S → S a = true) ∧
    (sh.ext ≠ none ↔ (cert = true ∧ sh.status = some false)) ∧
    (∀ e, sh.ext = some e → σ.GExt g (ofList e) ∧ a ∉ e ∧ e.Nodup)

theorem hitsL_single (a : Nat) (S : ASet) : HitsL [a] S ↔ S a = true := by
  simp [HitsL]

theorem ofList_true (e : List Nat) (a : Nat) : ofList e a = true ↔ a ∈ e := by
  simp [ofList]

/-- an answer the problem asks for is of the kind of the task -/
theorem shapeOk_of_problemOK {t : Task} {σ : Sem} {g : G} {cert : Bool} {args : List Nat} {ans : Ans}
    (h : ProblemOK t σ g (entryOf t cert args) ans) : shapeOk t ans = true := by
  cases t <;> cases ans <;> first | rfl | exact h.elim

/-- **`ProblemOK` on the answer gives `ShownOK` on what the answer shows** (with the
duplicate-freeness of the lists, `AnsNodup`, which `ProblemOK` does not include) -/
theorem shownOK_of_problemOK {t : Task} {σ : Sem} {g : G} {cert : Bool} {a : Nat} {ans : Ans}
    (h : ProblemOK t σ g (entryOf t cert [a]) ans) (hnd : AnsNodup ans) :
    ShownOK t σ g cert a (shownOf ans) := by
  cases t with
  | SE =>
    cases ans with
    | acc _ _ => exact h.elim
    | ext r =>
      have h' : SEOK σ g r := h
      refine ⟨rfl, h'.2, fun e he => ?_⟩
      have he' : r = some e := he
      subst he'
      exact ⟨h'.1 e rfl, hnd⟩
  | DC =>
    cases ans with
    | ext _ => exact h.elim
    | acc acc cv =>
      obtain ⟨_, ⟨hy, hn⟩, hc⟩ :
        cv = cert ∧ DCWOK σ (witnessSem .DC σ) g [a] cert acc ∧ (cert = false → acc.cert = none) := h
      have hnd' : ∀ e, acc.cert = some e → e.Nodup := hnd
      obtain ⟨st, c⟩ := acc
      simp only [hitsL_single] at hy hn
      simp only at hy hn hc hnd'
      show ShownOK .DC σ g cert a ⟨some st, c⟩
      refine ⟨by cases st <;> simp, ?_, ?_, ?_⟩
      · cases st with
        | true => simpa using (hy rfl).1
        | false => simpa using (hn rfl).1
      · constructor
        · intro hne
          cases cert with
          | false => exact absurd (hc rfl) hne
          | true =>
            cases st with
            | true => simp
            | false => exact absurd ((hn rfl).2 rfl) hne
        · rintro ⟨rfl, hst⟩
          have hst' : st = true := by simpa using hst
          obtain ⟨e, he, _⟩ := (hy hst').2 rfl
          simp [he]
      · intro e he
        have he' : c = some e := he
        subst he'
        cases cert with
        | false => exact absurd (hc rfl) (by simp)
        | true =>
          cases st with
          | false => exact absurd ((hn rfl).2 rfl) (by simp)
          | true =>
            obtain ⟨e', he', hext, hin⟩ := (hy rfl).2 rfl
            injection he' with he'
            subst he'
            exact ⟨hext, (ofList_true _ _).1 hin, hnd' _ rfl⟩
  | DS =>
    cases ans with
    | ext _ => exact h.elim
    | acc acc cv =>
      obtain ⟨_, ⟨hy, hn⟩, hc⟩ : cv = cert ∧ DSOK σ g [a] cert acc ∧ (cert = false → acc.cert = none) := h
      have hnd' : ∀ e, acc.cert = some e → e.Nodup := hnd
      obtain ⟨st, c⟩ := acc
      simp only [hitsL_single] at hy hn
      simp only at hy hn hc hnd'
      show ShownOK .DS σ g cert a ⟨some st, c⟩
      refine ⟨by cases st <;> simp, ?_, ?_, ?_⟩
      · cases st with
        | true => simpa using (hy rfl).1
        | false =>
          obtain ⟨S, hS, hna⟩ := (hn rfl).1
          simp only [Option.some.injEq, Bool.false_eq_true, false_iff]
          exact fun hall => hna (hall S hS)
      · constructor
        · intro hne
          cases cert with
          | false => exact absurd (hc rfl) hne
          | true =>
            cases st with
            | false => simp
            | true => exact absurd ((hy rfl).2 rfl) hne
        · rintro ⟨rfl, hst⟩
          have hst' : st = false := by simpa using hst
          obtain ⟨e, he, _⟩ := (hn hst').2 rfl
          simp [he]
      · intro e he
        have he' : c = some e := he
        subst he'
        cases cert with
        | false => exact absurd (hc rfl) (by simp)
        | true =>
          cases st with
          | true => exact absurd ((hy rfl).2 rfl) (by simp)
          | false =>
            obtain ⟨e', he', hext, hin⟩ := (hn rfl).2 rfl
            injection he' with he'
            subst he'
            exact ⟨hext, fun hm => hin ((ofList_true _ _).2 hm), hnd' _ rfl⟩

/-! ## every extension lies among the live arguments -/

theorem gext_cf {σ : Sem} {g : G} {S : ASet} (h : σ.GExt g S) : g.CF S := by
  cases σ with
  | GR => exact h.1.1.1
  | CO => exact h.1.1
  | PR => exact h.1.1
  | ST => exact h.1
  | SST => exact h.1.1.1
  | STG => exact h.1
  | ID => exact h.1.1.1

theorem gext_live {σ : Sem} {g : G} {e : List Nat} (h : σ.GExt g (ofList e)) : ∀ x ∈ e, g.live x = true :=
  fun x hx => (gext_cf h).1 x ((ofList_true e x).2 hx)

/-- every set that a `ShownOK` output shows consists of live arguments -/
theorem shownOK_live {t : Task} {σ : Sem} {g : G} {cert : Bool} {a : Nat} {sh : Shown}
    (h : ShownOK t σ g cert a sh) : ∀ e, sh.ext = some e → ∀ x ∈ e, g.live x = true := by
  intro e he
  cases t with
  | SE => exact gext_live (h.2.2 e he).1
  | DC => exact gext_live (h.2.2.2 e he).1
  | DS => exact gext_live (h.2.2.2 e he).1

/-- `ShownOK` pins the status line: two outputs for the same problem and argument (whatever the
certificate flag) that are both `ShownOK` show the same status -/
theorem shownOK_status_unique {t : Task} {σ : Sem} {g : G} {c1 c2 : Bool} {a : Nat} {sh1 sh2 : Shown}
    (h1 : ShownOK t σ g c1 a sh1) (h2 : ShownOK t σ g c2 a sh2) : sh1.status = sh2.status := by
  cases t with
  | SE => exact h1.1.trans h2.1.symm
  | DC =>
    obtain ⟨d1, i1, _⟩ := h1
    obtain ⟨d2, i2, _⟩ := h2
    rcases d1 with d1 | d1 <;> rcases d2 with d2 | d2
    · rw [d1, d2]
    · have := i2.2 (i1.1 d1); rw [d2] at this; cases this
    · have := i1.2 (i2.1 d2); rw [d1] at this; cases this
    · rw [d1, d2]
  | DS =>
    obtain ⟨d1, i1, _⟩ := h1
    obtain ⟨d2, i2, _⟩ := h2
    rcases d1 with d1 | d1 <;> rcases d2 with d2 | d2
    · rw [d1, d2]
    · have := i2.2 (i1.1 d1); rw [d2] at this; cases this
    · have := i1.2 (i2.1 d2); rw [d1] at this; cases this
    · rw [d1, d2]

/-! ## ICCMA'23 -/

/-- the answers of the dispatched program carry duplicate-free lists, conjoined with another
postcondition -/
theorem wp_with_nodup {t : Task} {σ : Sem} {cfg : Cfg} {v : FwView} {g : G} (hv : v.Ok g) {cert : Bool}
    {args : List Nat} (hargs : ∀ a, a ∈ (entryOf t cert args).argsList → g.live a = true) {p : Prog Ans}
    (hp : entryProg (dispatchSolver t σ) cfg v (entryOf t cert args) = some p) (w : World)
    {Q : Ans → World → Prop} (h : wp False p w Q) :
    wp False p w (fun ans w' => Q ans w' ∧ AnsNodup ans) :=
  wp_andT p w _ _ h (Leaves.wp p w (static_leaves_nodup _ cfg v g hv _ hargs p hp))

/-- **from the bytes of the instance file to the text on stdout** (ICCMA'23 format): for every byte
sequence the reader accepts, every accepted problem string, `--encoding` value, certificate flag and
`-a` string the reader's argument look-up accepts, the dispatched solver program exists, never
panics on sound replies, and the text printed on stdout for the answer it returns
(`stdoutIccma`: `NO` / one `w …` line for SE; `YES` / `NO` and possibly one `w …` line for DC / DS,
argument `i` printed as the number `i + 1`) parses back to a status and a set of arguments that are
what the problem promises on the declared graph (`ShownOK`) -/
theorem cli_stdout_on_readable_file (bs : List UInt8) (fw : IccmaFw) (hfile : readIccma bs = .ok fw)
    (s : Str) (t : Task) (σ : Sem) (hread : readProblem s = some (t, σ))
    (enc : Option String) (cfg : Cfg)
    (henc : ∀ k, dispatchEncoder σ enc (decide (s = s_SEPR)) = some k → cfg.enc = k)
    (cert : Bool) (argStr : Str) (a : Nat) (harg : t ≠ .SE → iccmaArgOfStr fw.n argStr = some a)
    (w : World) (hb : w.Bounded)
    (hfuel : cfg.fuel ≥ fuelFor (1 + (Store.ofIccma fw.n fw.atts).view.maxId.getD 0)) :
    ∃ p, entryProg (dispatchSolver t σ) cfg (Store.ofIccma fw.n fw.atts).view (entryOf t cert [a]) = some p ∧
      wp False p w (fun ans _ => ∃ sh, parseStdoutIccma t (stdoutIccma ans) = some sh ∧
        ShownOK t σ (Store.ofIccma fw.n fw.atts).g cert a sh) := by
  obtain ⟨hlive, _, p, hp, hwp⟩ :=
    cli_on_iccma_file bs fw hfile s t σ hread enc cfg henc cert argStr a harg w hb hfuel
  have hwf := readIccma_wfa bs fw hfile
  have hv := Store.ofIccma_view_ok fw.n fw.atts hwf
  have hargs : ∀ x, x ∈ (entryOf t cert [a]).argsList → (Store.ofIccma fw.n fw.atts).g.live x = true := by
    intro x hx
    cases t with
    | SE => simp [entryOf, Entry.argsList] at hx
    | DC =>
      simp [entryOf, Entry.argsList] at hx; subst hx
      exact (hlive x).2 (iccmaArgOfStr_lt _ _ _ (harg (by simp)))
    | DS =>
      simp [entryOf, Entry.argsList] at hx; subst hx
      exact (hlive x).2 (iccmaArgOfStr_lt _ _ _ (harg (by simp)))
  refine ⟨p, hp, wp_mono _ _ _ _ ?_ (wp_with_nodup hv hargs hp w hwp)⟩
  rintro ans _ ⟨hok, hnd⟩
  exact ⟨shownOf ans, parseStdoutIccma_stdoutIccma t ans (shapeOk_of_problemOK hok),
    shownOK_of_problemOK hok hnd⟩

/-! ## Aspartix -/

/-- **the same for the Aspartix format**: for every byte sequence the Aspartix reader accepts, every
accepted problem string, `--encoding` value, certificate flag and `-a` label declared in the file,
the dispatched solver program exists, never panics on sound replies, and the text printed on stdout
for the answer it returns (`stdoutApx`: `NO` / one `[l1,l2,…]` line for SE; `YES` / `NO` and possibly
one `[…]` line for DC / DS, argument `i` printed as the `i`-th declared name) parses back, looking
the names up among the declared ones, to a status and a set of arguments that are what the problem
promises on the declared graph (`ShownOK`) -/
theorem cli_stdout_on_readable_apx_file (bs : List UInt8) (fw : ApxFw) (hfile : readApx bs = .ok fw)
    (s : Str) (t : Task) (σ : Sem) (hread : readProblem s = some (t, σ))
    (enc : Option String) (cfg : Cfg)
    (henc : ∀ k, dispatchEncoder σ enc (decide (s = s_SEPR)) = some k → cfg.enc = k)
    (cert : Bool) (argStr : Str) (a : Nat) (harg : t ≠ .SE → idxOf fw.labels argStr = some a)
    (w : World) (hb : w.Bounded)
    (hfuel : cfg.fuel ≥ fuelFor (1 + (apxStore fw).view.maxId.getD 0)) :
    ∃ p, entryProg (dispatchSolver t σ) cfg (apxStore fw).view (entryOf t cert [a]) = some p ∧
      wp False p w (fun ans _ => ∃ sh, parseStdoutApx fw.labels t (stdoutApx fw.labels ans) = some sh ∧
        ShownOK t σ (apxStore fw).g cert a sh) := by
  obtain ⟨hlive, _, p, hp, hwp⟩ :=
    cli_on_apx_file bs fw hfile s t σ hread enc cfg henc cert argStr a harg w hb hfuel
  obtain ⟨hnd, hlt, hand⟩ := readApx_wfa bs fw hfile
  have hv := (apxStore_g fw hnd hlt hand).1
  have hlab := readApx_labels_valid bs fw hfile
  have hargs : ∀ x, x ∈ (entryOf t cert [a]).argsList → (apxStore fw).g.live x = true := by
    intro x hx
    cases t with
    | SE => simp [entryOf, Entry.argsList] at hx
    | DC =>
      simp [entryOf, Entry.argsList] at hx; subst hx
      exact (hlive x).2 (apxArgOfStr_lt _ _ _ (harg (by simp)))
    | DS =>
      simp [entryOf, Entry.argsList] at hx; subst hx
      exact (hlive x).2 (apxArgOfStr_lt _ _ _ (harg (by simp)))
  refine ⟨p, hp, wp_mono _ _ _ _ ?_ (wp_with_nodup hv hargs hp w hwp)⟩
  rintro ans _ ⟨hok, hnd'⟩
  have hsh := shownOK_of_problemOK hok hnd'
  refine ⟨shownOf ans, ?_, hsh⟩
  exact parseStdoutApx_stdoutApx fw.labels hnd (fun l hl => validId_printable l (hlab l hl)) t ans
    (shapeOk_of_problemOK hok) (fun e he x hx => (hlive x).1 (shownOK_live hsh e he x hx))

/-! ## non-vacuity -/

/-- ICCMA'23, DC with certificate: `YES\nw 1 3 12\n` is read as YES with the set `{0, 2, 11}` -/
example : parseStdoutIccma .DC [89, 69, 83, 10, 119, 32, 49, 32, 51, 32, 49, 50, 10] =
    some ⟨some true, some [0, 2, 11]⟩ := by decide

/-- and that text is the one printed for that answer -/
example : stdoutIccma (.acc ⟨true, some [0, 2, 11]⟩ true) = [89, 69, 83, 10, 119, 32, 49, 32, 51, 32, 49, 50, 10] := by
  simp [stdoutIccma, stdoutOf, iccmaLab, writeStatus_true, writeExtIccma, sYES, natToStr_lt10, natToStr_step]

/-- SE: `NO\n`, `w\n` (the empty extension) and `w 2\n` are three different outputs -/
example : parseStdoutIccma .SE [78, 79, 10] = some ⟨none, none⟩ ∧
    parseStdoutIccma .SE [119, 10] = some ⟨none, some []⟩ ∧
    parseStdoutIccma .SE [119, 32, 50, 10] = some ⟨none, some [1]⟩ := by decide

/-- rejected: a status line for SE, a missing final line feed, an argument number `0`, a set after
two status lines, an empty output -/
example : parseStdoutIccma .SE [89, 69, 83, 10] = none ∧ parseStdoutIccma .DS [78, 79] = none ∧
    parseStdoutIccma .SE [119, 32, 48, 10] = none ∧
    parseStdoutIccma .DC [78, 79, 10, 78, 79, 10, 119, 10] = none ∧ parseStdoutIccma .DC [] = none := by decide

/-- Aspartix, DS with certificate, labels `a`, `bc`: `NO\n[bc,a]\n` is read as NO with the set `{1, 0}`;
an undeclared name is rejected -/
example : parseStdoutApx [[97], [98, 99]] .DS [78, 79, 10, 91, 98, 99, 44, 97, 93, 10] =
      some ⟨some false, some [1, 0]⟩ ∧
    parseStdoutApx [[97], [98, 99]] .DS [78, 79, 10, 91, 98, 44, 97, 93, 10] = none := by decide

/-- the round-trip theorems on concrete answers -/
example : parseStdoutIccma .DC (stdoutIccma (.acc ⟨true, some [0, 2, 11]⟩ true)) =
    some ⟨some true, some [0, 2, 11]⟩ := parseStdoutIccma_stdoutIccma _ _ rfl

example : parseStdoutApx [[97], [98, 99]] .SE (stdoutApx [[97], [98, 99]] (.ext (some [1, 0]))) =
    some ⟨none, some [1, 0]⟩ :=
  parseStdoutApx_stdoutApx _ (by decide) (by decide) _ _ rfl (by decide)

end Crusta.Cli
