import Crusta.Model.Dyn
import Crusta.Proofs.GSem
import Crusta.Proofs.Wp

/-!
# The invariant of the dynamic encoder and what it means

`EncInv st e Γ T F dirty` relates the solver's framework `st`, the encoder tables `e` and the clause
database `Γ` of the shared SAT solver.  `T` / `F` are ghost sets: the variables forced true
(variables of removed arguments, selectors of finished searches) and forced false (retired
selectors) by unit clauses; a ghost variable occurs in the database (so a variable above the solver's
`n_vars` is in neither set).  `dirty` marks the arguments whose attack constraints are stale (only
during the replay of buffered updates).

With nothing dirty the invariant gives both directions between the models of `Γ` under the current
assumptions and the complete (resp. stable) extensions of `st`:
`models_complete` / `models_stable` and `complete_model` / `stable_model`.
-/

namespace Crusta.Dyn
open Crusta

def Enc.av (e : Enc) (i : Nat) : Option Nat := e.argVar.getD i none
def Enc.sv (e : Enc) (i : Nat) : Option Nat := e.selVar.getD i none
def Enc.ty (e : Enc) (v : Nat) : VarType := e.vars.getD v .ignored
/-- variable of an argument (0 when it has none) -/
def Enc.xv (e : Enc) (i : Nat) : Nat := (e.av i).getD 0

def attackersOf (st : Store) (i : Nat) : List Nat := (st.iterTo i).map (·.1)

theorem mem_attackersOf {st : Store} (hinv : st.Inv) (i b : Nat) : b ∈ attackersOf st i ↔ st.HasAtt b i := by
  unfold attackersOf
  simp only [List.mem_map]
  constructor
  · rintro ⟨p, hp, rfl⟩
    have := (Store.mem_iterTo hinv i p).1 hp
    rw [← this.1]; exact this.2
  · intro h
    exact ⟨(b, i), (Store.mem_iterTo hinv i (b, i)).2 ⟨rfl, h⟩, rfl⟩

theorem optAll_eq_some {α : Type} : ∀ (l : List (Option α)) (xs : List α), optAll l = some xs → l = xs.map some
  | [], xs, h => by simp [optAll] at h; subst h; rfl
  | none :: r, xs, h => by simp [optAll] at h
  | some a :: r, xs, h => by
    simp only [optAll, Option.map_eq_some_iff] at h
    obtain ⟨ys, hys, rfl⟩ := h
    simp [optAll_eq_some r ys hys]

theorem optAll_map_some {α : Type} (l : List α) : optAll (l.map some) = some l := by
  induction l with
  | nil => rfl
  | cons a t ih => simp [optAll, ih]

theorem map_some_inj {α : Type} : ∀ (xs ys : List α), xs.map some = ys.map some → xs = ys
  | [], [], _ => rfl
  | [], _ :: _, h => by simp at h
  | _ :: _, [], h => by simp at h
  | a :: xs, b :: ys, h => by
    simp only [List.map_cons, List.cons.injEq, Option.some.injEq] at h
    rw [h.1, map_some_inj xs ys h.2]

/-- when every attacker has a variable, the variable list is the image of the attacker list -/
theorem optAll_av {e : Enc} {l : List Nat} {xs : List Nat} (h : optAll (l.map e.av) = some xs) :
    xs = l.map e.xv ∧ ∀ b ∈ l, e.av b = some (e.xv b) := by
  have h1 := optAll_eq_some _ _ h
  have h2 : ∀ b ∈ l, e.av b = some (e.xv b) := by
    intro b hb
    have : e.av b ∈ xs.map some := by rw [← h1]; exact List.mem_map_of_mem hb
    obtain ⟨x, _, hx⟩ := List.mem_map.1 this
    unfold Enc.xv; rw [← hx]; rfl
  refine ⟨?_, h2⟩
  have : xs.map some = (l.map e.xv).map some := by
    rw [← h1, List.map_map]
    apply List.map_congr_left
    intro b hb; rw [h2 b hb]; rfl
  exact map_some_inj _ _ this

/-- the attack clauses of `i` under `s`, for the framework and tables as they are now -/
def CurClauses (st : Store) (e : Enc) (i s : Nat) (cl : Cnf) : Prop :=
  ∃ xt xs, e.av i = some xt ∧ optAll ((attackersOf st i).map e.av) = some xs ∧
    cl = attackClauses e.sem s xt xs

def ClauseKind (st : Store) (e : Enc) (T F : Nat → Bool) (dirty : Nat → Prop) (c : Clause) : Prop :=
  (∃ v i, c = [nl v, nl (v + 1)] ∧ e.ty (v + 1) = .disj i) ∨
  (∃ s, F s = true ∧ nl s ∈ c) ∨
  (∃ t, T t = true ∧ pl t ∈ c) ∨
  (∃ i s, e.sv i = some s ∧ nl s ∈ c ∧ (¬ dirty i → ∃ cl, CurClauses st e i s cl ∧ c ∈ cl))

/-- the variable occurs in a clause of the database -/
def Occurs (Γ : Cnf) (v : Nat) : Prop := ∃ c ∈ Γ, ∃ l ∈ c, l.var = v

theorem Occurs.mono {Γ Γ' : Cnf} {v : Nat} (h : Occurs Γ v) (hsub : ∀ c ∈ Γ, c ∈ Γ') : Occurs Γ' v := by
  obtain ⟨c, hc, l, hl, hv⟩ := h
  exact ⟨c, hsub c hc, l, hl, hv⟩

structure EncInv (st : Store) (e : Enc) (Γ : Cnf) (T F : Nat → Bool) (dirty : Nat → Prop) : Prop where
  vars_pos : 1 ≤ e.vars.length
  sz_a : e.argVar.length = st.labels.length
  sz_s : e.selVar.length = st.labels.length
  av_live : ∀ i, st.hasId i = true → ∃ v, e.av i = some v ∧ 1 ≤ v ∧ e.ty v = .arg i ∧
      (e.sem ≠ .ST → e.ty (v + 1) = .disj i ∧ [nl v, nl (v + 1)] ∈ Γ)
  sv_live : ∀ i s, e.sv i = some s → st.hasId i = true ∧ e.ty s = .sel i
  ty_arg : ∀ v i, e.ty v = .arg i → st.hasId i = true ∧ e.av i = some v
  ty_sel : ∀ v i, e.ty v = .sel i → e.sv i = some v
  ty_disj : ∀ v i, e.ty v = .disj i →
      (1 ≤ v ∧ i < st.labels.length) ∧ (e.ty (v - 1) = .arg i ∨ (T (v - 1) = true ∧ st.hasId i = false))
  asm : ∀ l, l ∈ e.assumptions ↔ ∃ s i, l = pl s ∧ e.ty s = .sel i
  asm_nodup : e.assumptions.Nodup
  ghostT : ∀ v, T v = true → e.ty v = .ignored ∧ Occurs Γ v
  ghostF : ∀ v, F v = true → e.ty v = .ignored ∧ Occurs Γ v
  ghostTF : ∀ v, ¬ (T v = true ∧ F v = true)
  acc : ∀ c ∈ Γ, ClauseKind st e T F dirty c
  act : ∀ i, st.hasId i = true → ¬ dirty i →
      ∃ s cl, e.sv i = some s ∧ CurClauses st e i s cl ∧ ∀ c ∈ cl, c ∈ Γ
  disj_cl : ∀ v i, e.ty (v + 1) = .disj i → [nl v, nl (v + 1)] ∈ Γ

/-- the set of arguments read off an assignment -/
def setOf (st : Store) (e : Enc) (ν : Asg) : ASet := fun i => st.hasId i && ν (e.xv i)

theorem clauseTrue_of_mem {ν : Asg} {Γ : Cnf} (h : cnfTrue ν Γ = true) {c : Clause} (hc : c ∈ Γ) :
    clauseTrue ν c = true := by
  unfold cnfTrue at h
  exact List.all_eq_true.1 h c hc

@[simp] theorem litTrue_pl (ν : Asg) (v : Nat) : litTrue ν (pl v) = ν v := by simp [litTrue, pl]
@[simp] theorem litTrue_nl (ν : Asg) (v : Nat) : litTrue ν (nl v) = !ν v := by simp [litTrue, nl]

/-! ## what the attack clauses say -/

theorem clauseTrue_cons (ν : Asg) (l : Lit) (c : Clause) : clauseTrue ν (l :: c) = (litTrue ν l || clauseTrue ν c) := by
  simp [clauseTrue]

theorem clauseTrue_nil (ν : Asg) : clauseTrue ν [] = false := rfl

theorem clauseTrue_map (ν : Asg) (xs : List Nat) (f : Nat → Lit) :
    clauseTrue ν (xs.map f) = true ↔ ∃ x ∈ xs, litTrue ν (f x) = true := by
  simp [clauseTrue, List.any_map, List.any_eq_true]

theorem attackClauses_co_facts {sem : DSem} (hsem : sem ≠ .ST) {ν : Asg} {s xt : Nat} {xs : List Nat}
    (hs : ν s = true) (h : ∀ c ∈ attackClauses sem s xt xs, clauseTrue ν c = true) :
    (ν xt = true → ∀ xa ∈ xs, ν (xa + 1) = true) ∧ ((∀ xa ∈ xs, ν (xa + 1) = true) → ν xt = true) ∧
    (∀ xa ∈ xs, ν xa = true → ν (xt + 1) = true) ∧ (ν (xt + 1) = true → ∃ xa ∈ xs, ν xa = true) := by
  have hcl : attackClauses sem s xt xs =
      xs.map (fun xa => [nl s, nl xt, pl (xa + 1)]) ++ [[nl s, pl xt] ++ xs.map (fun xa => nl (xa + 1))] ++
      xs.map (fun xa => [nl s, pl (xt + 1), nl xa]) ++ [[nl s, nl (xt + 1)] ++ xs.map pl] := by
    cases sem <;> simp_all [attackClauses]
  rw [hcl] at h
  simp only [List.mem_append, List.mem_map, List.mem_singleton] at h
  refine ⟨?_, ?_, ?_, ?_⟩
  · intro hx xa hxa
    have := h _ (Or.inl (Or.inl (Or.inl ⟨xa, hxa, rfl⟩)))
    simpa [clauseTrue, hs, hx] using this
  · intro hall
    have := h _ (Or.inl (Or.inl (Or.inr rfl)))
    simp only [List.cons_append, List.nil_append, clauseTrue_cons, litTrue_nl, litTrue_pl, hs, Bool.not_true,
      Bool.false_or, Bool.or_eq_true] at this
    rcases this with h1 | h1
    · exact h1
    · obtain ⟨x, hx, hl⟩ := (clauseTrue_map ν xs _).1 h1
      simp [hall x hx] at hl
  · intro xa hxa hx
    have := h _ (Or.inl (Or.inr ⟨xa, hxa, rfl⟩))
    simpa [clauseTrue, hs, hx] using this
  · intro hd
    have := h _ (Or.inr rfl)
    simp only [List.cons_append, List.nil_append, clauseTrue_cons, litTrue_nl, litTrue_pl, hs, hd, Bool.not_true,
      Bool.false_or] at this
    obtain ⟨x, hx, hl⟩ := (clauseTrue_map ν xs _).1 this
    exact ⟨x, hx, by simpa using hl⟩

theorem attackClauses_co_true {sem : DSem} (hsem : sem ≠ .ST) {ν : Asg} {s xt : Nat} {xs : List Nat}
    (h1 : ν xt = true → ∀ xa ∈ xs, ν (xa + 1) = true) (h2 : (∀ xa ∈ xs, ν (xa + 1) = true) → ν xt = true)
    (h3 : ∀ xa ∈ xs, ν xa = true → ν (xt + 1) = true) (h4 : ν (xt + 1) = true → ∃ xa ∈ xs, ν xa = true) :
    ∀ c ∈ attackClauses sem s xt xs, clauseTrue ν c = true := by
  have hcl : attackClauses sem s xt xs =
      xs.map (fun xa => [nl s, nl xt, pl (xa + 1)]) ++ [[nl s, pl xt] ++ xs.map (fun xa => nl (xa + 1))] ++
      xs.map (fun xa => [nl s, pl (xt + 1), nl xa]) ++ [[nl s, nl (xt + 1)] ++ xs.map pl] := by
    cases sem <;> simp_all [attackClauses]
  rw [hcl]
  intro c hc
  simp only [List.mem_append, List.mem_map, List.mem_singleton] at hc
  rcases hc with ((⟨xa, hxa, rfl⟩ | rfl) | ⟨xa, hxa, rfl⟩) | rfl
  · cases hx : ν xt
    · simp [clauseTrue, hx]
    · simp [clauseTrue, hx, h1 hx xa hxa]
  · cases hx : ν xt
    · have : ¬ ∀ xa ∈ xs, ν (xa + 1) = true := fun hall => by rw [h2 hall] at hx; cases hx
      simp only [Classical.not_forall] at this
      obtain ⟨xa, hxa, hn⟩ := this
      simp only [List.cons_append, List.nil_append, clauseTrue_cons, Bool.or_eq_true]
      right; right
      exact (clauseTrue_map ν xs _).2 ⟨xa, hxa, by simpa using hn⟩
    · simp [clauseTrue, hx]
  · cases hx : ν xa
    · simp [clauseTrue, hx]
    · simp [clauseTrue, hx, h3 xa hxa hx]
  · cases hd : ν (xt + 1)
    · simp [clauseTrue, hd]
    · obtain ⟨xa, hxa, hx⟩ := h4 hd
      simp only [List.cons_append, List.nil_append, clauseTrue_cons, Bool.or_eq_true]
      right; right
      exact (clauseTrue_map ν xs _).2 ⟨xa, hxa, by simpa using hx⟩

theorem attackClauses_st_facts {ν : Asg} {s xt : Nat} {xs : List Nat}
    (hs : ν s = true) (h : ∀ c ∈ attackClauses .ST s xt xs, clauseTrue ν c = true) :
    (ν xt = true → ∀ xa ∈ xs, ν xa = false) ∧ (ν xt = false → ∃ xa ∈ xs, ν xa = true) := by
  simp only [attackClauses, List.mem_append, List.mem_map, List.mem_singleton] at h
  constructor
  · intro hx xa hxa
    have := h _ (Or.inl ⟨xa, hxa, rfl⟩)
    simpa [clauseTrue, hs, hx] using this
  · intro hx
    have := h _ (Or.inr rfl)
    simp only [List.cons_append, List.nil_append, clauseTrue_cons, litTrue_nl, litTrue_pl, hs, hx, Bool.not_true,
      Bool.false_or] at this
    obtain ⟨x, hx, hl⟩ := (clauseTrue_map ν xs _).1 this
    exact ⟨x, hx, by simpa using hl⟩

theorem attackClauses_st_true {ν : Asg} {s xt : Nat} {xs : List Nat}
    (h1 : ν xt = true → ∀ xa ∈ xs, ν xa = false) (h2 : ν xt = false → ∃ xa ∈ xs, ν xa = true) :
    ∀ c ∈ attackClauses .ST s xt xs, clauseTrue ν c = true := by
  intro c hc
  simp only [attackClauses, List.mem_append, List.mem_map, List.mem_singleton] at hc
  rcases hc with ⟨xa, hxa, rfl⟩ | rfl
  · cases hx : ν xt
    · simp [clauseTrue, hx]
    · simp [clauseTrue, hx, h1 hx xa hxa]
  · cases hx : ν xt
    · obtain ⟨xa, hxa, hv⟩ := h2 hx
      simp only [List.cons_append, List.nil_append, clauseTrue_cons, Bool.or_eq_true]
      right; right
      exact (clauseTrue_map ν xs _).2 ⟨xa, hxa, by simpa using hv⟩
    · simp [clauseTrue, hx]

section sound
variable {st : Store} {e : Enc} {Γ : Cnf} {T F : Nat → Bool} {dirty : Nat → Prop}

/-- facts about one live, clean argument under an assignment satisfying `Γ` and the assumptions -/
theorem active_facts (h : EncInv st e Γ T F dirty) {ν : Asg}
    (hΓ : cnfTrue ν Γ = true) (hA : assumpsTrue ν e.assumptions = true)
    {i : Nat} (hi : st.hasId i = true) (hd : ¬ dirty i) :
    ∃ s, e.sv i = some s ∧ ν s = true ∧ e.av i = some (e.xv i) ∧
      (∀ b ∈ attackersOf st i, e.av b = some (e.xv b)) ∧
      ∀ c ∈ attackClauses e.sem s (e.xv i) ((attackersOf st i).map e.xv), clauseTrue ν c = true := by
  obtain ⟨s, cl, hs, ⟨xt, xs, hxt, hxs, rfl⟩, hcl⟩ := h.act i hi hd
  obtain ⟨hxs1, hxs2⟩ := optAll_av hxs
  have hty := (h.sv_live i s hs).2
  have hmem : pl s ∈ e.assumptions := (h.asm _).2 ⟨s, i, rfl, hty⟩
  have hνs : ν s = true := by
    have := List.all_eq_true.1 hA _ hmem
    simpa using this
  have hxi : e.xv i = xt := by unfold Enc.xv; rw [hxt]; rfl
  refine ⟨s, hs, hνs, by rw [hxi]; exact hxt, hxs2, ?_⟩
  intro c hc
  rw [hxi, ← hxs1] at hc
  exact clauseTrue_of_mem hΓ (hcl c hc)

theorem co_facts (hinv : st.Inv) (h : EncInv st e Γ T F dirty) (hclean : ∀ i, ¬ dirty i) (hsem : e.sem ≠ .ST)
    {ν : Asg} (hΓ : cnfTrue ν Γ = true) (hA : assumpsTrue ν e.assumptions = true)
    {i : Nat} (hi : st.hasId i = true) :
    (ν (e.xv i) = true → ∀ b, st.HasAtt b i → ν (e.xv b + 1) = true) ∧
    ((∀ b, st.HasAtt b i → ν (e.xv b + 1) = true) → ν (e.xv i) = true) ∧
    (∀ b, st.HasAtt b i → ν (e.xv b) = true → ν (e.xv i + 1) = true) ∧
    (ν (e.xv i + 1) = true → ∃ b, st.HasAtt b i ∧ ν (e.xv b) = true) ∧
    ¬ (ν (e.xv i) = true ∧ ν (e.xv i + 1) = true) := by
  obtain ⟨s, _, hνs, _, _, hcl⟩ := active_facts h hΓ hA hi (hclean i)
  obtain ⟨f1, f2, f3, f4⟩ := attackClauses_co_facts hsem hνs hcl
  refine ⟨?_, ?_, ?_, ?_, ?_⟩
  · intro hx b hb
    exact f1 hx _ (List.mem_map_of_mem ((mem_attackersOf hinv i b).2 hb))
  · intro hall
    apply f2
    intro xa hxa
    obtain ⟨b, hb, rfl⟩ := List.mem_map.1 hxa
    exact hall b ((mem_attackersOf hinv i b).1 hb)
  · intro b hb hx
    exact f3 _ (List.mem_map_of_mem ((mem_attackersOf hinv i b).2 hb)) hx
  · intro hd
    obtain ⟨xa, hxa, hx⟩ := f4 hd
    obtain ⟨b, hb, rfl⟩ := List.mem_map.1 hxa
    exact ⟨b, (mem_attackersOf hinv i b).1 hb, hx⟩
  · obtain ⟨v, hv, _, _, hp⟩ := h.av_live i hi
    have hxv : e.xv i = v := by unfold Enc.xv; rw [hv]; rfl
    have := clauseTrue_of_mem hΓ (hp hsem).2
    rw [hxv]
    intro ⟨h1, h2⟩
    simp [clauseTrue, h1, h2] at this

/-- **soundness of the encoding (complete semantics)**: an assignment that satisfies the clause
database and the current assumptions describes a complete extension of the current framework -/
theorem models_complete (hinv : st.Inv) (h : EncInv st e Γ T F dirty) (hclean : ∀ i, ¬ dirty i)
    (hsem : e.sem ≠ .ST) {ν : Asg} (hΓ : cnfTrue ν Γ = true) (hA : assumpsTrue ν e.assumptions = true) :
    st.g.Complete (setOf st e ν) := by
  have facts := fun i hi => co_facts hinv h hclean hsem hΓ hA (i := i) hi
  have hlive : ∀ a b, st.HasAtt a b → st.hasId a = true ∧ st.hasId b = true := Store.g_wf hinv
  have hS : ∀ a, setOf st e ν a = true ↔ (st.hasId a = true ∧ ν (e.xv a) = true) := by
    intro a; simp [setOf]
  -- the disjunction variable of a live argument says "attacked by the set"
  have hD : ∀ i, st.hasId i = true → (ν (e.xv i + 1) = true ↔ st.g.AttackedBy (setOf st e ν) i) := by
    intro i hi
    obtain ⟨_, _, f3, f4, _⟩ := facts i hi
    constructor
    · intro hd
      obtain ⟨b, hb, hx⟩ := f4 hd
      exact ⟨b, hb, (hS b).2 ⟨(hlive b i hb).1, hx⟩⟩
    · rintro ⟨b, hb, hSb⟩
      exact f3 b hb ((hS b).1 hSb).2
  refine ⟨⟨⟨fun a ha => ((hS a).1 ha).1, ?_⟩, ?_⟩, ?_⟩
  · intro a ha hatt
    obtain ⟨hl, hx⟩ := (hS a).1 ha
    exact (facts a hl).2.2.2.2 ⟨hx, (hD a hl).2 hatt⟩
  · intro a ha b hb
    obtain ⟨hl, hx⟩ := (hS a).1 ha
    exact (hD b (hlive b a hb).1).1 ((facts a hl).1 hx b hb)
  · intro a hl hdef
    apply (hS a).2
    refine ⟨hl, (facts a hl).2.1 ?_⟩
    intro b hb
    exact (hD b (hlive b a hb).1).2 (hdef b hb)

theorem models_stable (hinv : st.Inv) (h : EncInv st e Γ T F dirty) (hclean : ∀ i, ¬ dirty i)
    (hsem : e.sem = .ST) {ν : Asg} (hΓ : cnfTrue ν Γ = true) (hA : assumpsTrue ν e.assumptions = true) :
    st.g.Stable (setOf st e ν) := by
  have hlive : ∀ a b, st.HasAtt a b → st.hasId a = true ∧ st.hasId b = true := Store.g_wf hinv
  have hS : ∀ a, setOf st e ν a = true ↔ (st.hasId a = true ∧ ν (e.xv a) = true) := by
    intro a; simp [setOf]
  have facts : ∀ i, st.hasId i = true →
      (ν (e.xv i) = true → ∀ b, st.HasAtt b i → ν (e.xv b) = false) ∧
      (ν (e.xv i) = false → ∃ b, st.HasAtt b i ∧ ν (e.xv b) = true) := by
    intro i hi
    obtain ⟨s, _, hνs, _, _, hcl⟩ := active_facts h hΓ hA hi (hclean i)
    rw [hsem] at hcl
    obtain ⟨f1, f2⟩ := attackClauses_st_facts hνs hcl
    constructor
    · intro hx b hb
      exact f1 hx _ (List.mem_map_of_mem ((mem_attackersOf hinv i b).2 hb))
    · intro hx
      obtain ⟨xa, hxa, hv⟩ := f2 hx
      obtain ⟨b, hb, rfl⟩ := List.mem_map.1 hxa
      exact ⟨b, (mem_attackersOf hinv i b).1 hb, hv⟩
  refine ⟨⟨fun a ha => ((hS a).1 ha).1, ?_⟩, ?_⟩
  · rintro a ha ⟨b, hb, hSb⟩
    obtain ⟨hl, hx⟩ := (hS a).1 ha
    have := (facts a hl).1 hx b hb
    rw [((hS b).1 hSb).2] at this; cases this
  · intro a hl hn
    have hx : ν (e.xv a) = false := by
      cases hv : ν (e.xv a)
      · rfl
      · have := (hS a).2 ⟨hl, hv⟩; rw [this] at hn; cases hn
    obtain ⟨b, hb, hv⟩ := (facts a hl).2 hx
    exact ⟨b, hb, (hS b).2 ⟨(hlive b a hb).1, hv⟩⟩

/-- the assignment describing a set of arguments -/
def modelOf (st : Store) (e : Enc) (T : Nat → Bool) (S : ASet) : Asg := fun v =>
  match e.ty v with
  | .arg i => S i
  | .disj i => (attackersOf st i).any S
  | .sel _ => true
  | .ignored => T v

theorem any_attackers_iff (hinv : st.Inv) (S : ASet) (i : Nat) :
    (attackersOf st i).any S = true ↔ st.g.AttackedBy S i := by
  simp only [List.any_eq_true, G.AttackedBy, Store.g]
  constructor
  · rintro ⟨b, hb, hS⟩; exact ⟨b, (mem_attackersOf hinv i b).1 hb, hS⟩
  · rintro ⟨b, hb, hS⟩; exact ⟨b, (mem_attackersOf hinv i b).2 hb, hS⟩

theorem modelOf_arg (h : EncInv st e Γ T F dirty) (S : ASet) {i : Nat} (hi : st.hasId i = true) :
    e.av i = some (e.xv i) ∧ modelOf st e T S (e.xv i) = S i ∧
      (e.sem ≠ .ST → modelOf st e T S (e.xv i + 1) = (attackersOf st i).any S) := by
  obtain ⟨v, hv, _, hty, hp⟩ := h.av_live i hi
  have hxv : e.xv i = v := by unfold Enc.xv; rw [hv]; rfl
  rw [hxv]
  refine ⟨hv, by simp [modelOf, hty], ?_⟩
  intro hsem
  simp [modelOf, (hp hsem).1]

theorem modelOf_assumps (h : EncInv st e Γ T F dirty) (S : ASet) :
    assumpsTrue (modelOf st e T S) e.assumptions = true := by
  unfold assumpsTrue
  rw [List.all_eq_true]
  intro l hl
  obtain ⟨s, i, rfl, hty⟩ := (h.asm l).1 hl
  simp [modelOf, hty]

/-- the clauses that are not the current attack clauses of a clean argument hold under `modelOf`
as soon as the set is conflict-free -/
theorem modelOf_other (hinv : st.Inv) (h : EncInv st e Γ T F dirty) {S : ASet}
    (hcf : ∀ a, S a = true → ¬ st.g.AttackedBy S a) {c : Clause}
    (hk : (∃ v i, c = [nl v, nl (v + 1)] ∧ e.ty (v + 1) = .disj i) ∨ (∃ s, F s = true ∧ nl s ∈ c) ∨
      (∃ t, T t = true ∧ pl t ∈ c)) : clauseTrue (modelOf st e T S) c = true := by
  rcases hk with ⟨v, i, rfl, hty⟩ | ⟨s, hs, hmem⟩ | ⟨t, ht, hmem⟩
  · have hd := h.ty_disj (v + 1) i hty
    simp only [Nat.add_sub_cancel] at hd
    have hν1 : modelOf st e T S (v + 1) = (attackersOf st i).any S := by simp [modelOf, hty]
    rcases hd.2 with ha | ⟨_, hdead⟩
    · have hν0 : modelOf st e T S v = S i := by simp [modelOf, ha]
      cases hSi : S i
      · simp [clauseTrue, hν0, hSi]
      · have : (attackersOf st i).any S = false := by
          cases hany : (attackersOf st i).any S
          · rfl
          · exact absurd ((any_attackers_iff hinv S i).1 hany) (hcf i hSi)
        simp [clauseTrue, hν1, this]
    · have : (attackersOf st i).any S = false := by
        rw [List.any_eq_false]
        intro b hb
        have := (Store.g_wf hinv b i ((mem_attackersOf hinv i b).1 hb)).2
        simp [Store.g, hdead] at this
      simp [clauseTrue, hν1, this]
  · have hty := (h.ghostF s hs).1
    have hT : T s = false := by
      cases hT : T s
      · rfl
      · exact absurd ⟨hT, hs⟩ (h.ghostTF s)
    unfold clauseTrue
    rw [List.any_eq_true]
    exact ⟨nl s, hmem, by simp [modelOf, hty, hT]⟩
  · have hty := (h.ghostT t ht).1
    unfold clauseTrue
    rw [List.any_eq_true]
    exact ⟨pl t, hmem, by simp [modelOf, hty, ht]⟩

/-- **completeness of the encoding (complete semantics)**: every complete extension of the current
framework is described by an assignment that satisfies the clause database and the assumptions -/
theorem complete_model (hinv : st.Inv) (h : EncInv st e Γ T F dirty) (hclean : ∀ i, ¬ dirty i)
    (hsem : e.sem ≠ .ST) {S : ASet} (hS : st.g.Complete S) :
    cnfTrue (modelOf st e T S) Γ = true ∧ assumpsTrue (modelOf st e T S) e.assumptions = true ∧
      ∀ i, st.hasId i = true → modelOf st e T S (e.xv i) = S i := by
  refine ⟨?_, modelOf_assumps h S, fun i hi => (modelOf_arg h S hi).2.1⟩
  have hlive : ∀ a b, st.HasAtt a b → st.hasId a = true ∧ st.hasId b = true := Store.g_wf hinv
  unfold cnfTrue
  rw [List.all_eq_true]
  intro c hc
  rcases h.acc c hc with hk | hk | hk | ⟨i, s, hs, _, hcur⟩
  · exact modelOf_other hinv h hS.1.1.2 (Or.inl hk)
  · exact modelOf_other hinv h hS.1.1.2 (Or.inr (Or.inl hk))
  · exact modelOf_other hinv h hS.1.1.2 (Or.inr (Or.inr hk))
  · obtain ⟨cl, ⟨xt, xs, hxt, hxs, rfl⟩, hmem⟩ := hcur (hclean i)
    have hi := (h.sv_live i s hs).1
    obtain ⟨hxs1, hxs2⟩ := optAll_av hxs
    obtain ⟨hav, hνx, hνd⟩ := modelOf_arg h S hi
    have hxt' : xt = e.xv i := by rw [hav] at hxt; exact (Option.some.inj hxt).symm
    subst hxt'
    subst hxs1
    have hb : ∀ b ∈ attackersOf st i, st.HasAtt b i ∧ st.hasId b = true := fun b hb =>
      ⟨(mem_attackersOf hinv i b).1 hb, (hlive b i ((mem_attackersOf hinv i b).1 hb)).1⟩
    refine attackClauses_co_true hsem ?_ ?_ ?_ ?_ c hmem
    · intro hx xa hxa
      obtain ⟨b, hbm, rfl⟩ := List.mem_map.1 hxa
      rw [(modelOf_arg h S (hb b hbm).2).2.2 hsem, any_attackers_iff hinv]
      rw [hνx] at hx
      exact hS.1.2 i hx b (hb b hbm).1
    · intro hall
      rw [hνx]
      apply hS.2 i hi
      intro b hbatt
      have hbm := (mem_attackersOf hinv i b).2 hbatt
      have := hall _ (List.mem_map_of_mem hbm)
      rw [(modelOf_arg h S (hb b hbm).2).2.2 hsem, any_attackers_iff hinv] at this
      exact this
    · intro xa hxa hx
      obtain ⟨b, hbm, rfl⟩ := List.mem_map.1 hxa
      rw [(modelOf_arg h S (hb b hbm).2).2.1] at hx
      rw [hνd hsem, List.any_eq_true]
      exact ⟨b, hbm, hx⟩
    · intro hd
      rw [hνd hsem, List.any_eq_true] at hd
      obtain ⟨b, hbm, hSb⟩ := hd
      exact ⟨e.xv b, List.mem_map_of_mem hbm, by rw [(modelOf_arg h S (hb b hbm).2).2.1]; exact hSb⟩

theorem stable_model (hinv : st.Inv) (h : EncInv st e Γ T F dirty) (hclean : ∀ i, ¬ dirty i)
    (hsem : e.sem = .ST) {S : ASet} (hS : st.g.Stable S) :
    cnfTrue (modelOf st e T S) Γ = true ∧ assumpsTrue (modelOf st e T S) e.assumptions = true ∧
      ∀ i, st.hasId i = true → modelOf st e T S (e.xv i) = S i := by
  refine ⟨?_, modelOf_assumps h S, fun i hi => (modelOf_arg h S hi).2.1⟩
  have hlive : ∀ a b, st.HasAtt a b → st.hasId a = true ∧ st.hasId b = true := Store.g_wf hinv
  unfold cnfTrue
  rw [List.all_eq_true]
  intro c hc
  rcases h.acc c hc with hk | hk | hk | ⟨i, s, hs, _, hcur⟩
  · exact modelOf_other hinv h hS.1.2 (Or.inl hk)
  · exact modelOf_other hinv h hS.1.2 (Or.inr (Or.inl hk))
  · exact modelOf_other hinv h hS.1.2 (Or.inr (Or.inr hk))
  · obtain ⟨cl, ⟨xt, xs, hxt, hxs, rfl⟩, hmem⟩ := hcur (hclean i)
    have hi := (h.sv_live i s hs).1
    obtain ⟨hxs1, hxs2⟩ := optAll_av hxs
    obtain ⟨hav, hνx, _⟩ := modelOf_arg h S hi
    have hxt' : xt = e.xv i := by rw [hav] at hxt; exact (Option.some.inj hxt).symm
    subst hxt'
    subst hxs1
    have hb : ∀ b ∈ attackersOf st i, st.HasAtt b i ∧ st.hasId b = true := fun b hb =>
      ⟨(mem_attackersOf hinv i b).1 hb, (hlive b i ((mem_attackersOf hinv i b).1 hb)).1⟩
    rw [hsem] at hmem
    refine attackClauses_st_true ?_ ?_ c hmem
    · intro hx xa hxa
      obtain ⟨b, hbm, rfl⟩ := List.mem_map.1 hxa
      rw [(modelOf_arg h S (hb b hbm).2).2.1]
      rw [hνx] at hx
      cases hSb : S b
      · rfl
      · exact absurd ⟨b, (hb b hbm).1, hSb⟩ (hS.1.2 i hx)
    · intro hx
      rw [hνx] at hx
      obtain ⟨b, hbatt, hSb⟩ := hS.2 i hi hx
      have hbm := (mem_attackersOf hinv i b).2 hbatt
      exact ⟨e.xv b, List.mem_map_of_mem hbm, by rw [(modelOf_arg h S (hb b hbm).2).2.1]; exact hSb⟩

end sound

end Crusta.Dyn
