/-! Regenerated from /repo/src/app/solve_command.rs by tools/gen_from_source.py on every run. Do not edit. -/

namespace Crusta.Gen

/-- (task, semantics, solver type answering the problem) -/
def dispatchTable : List (String × String × String) := [("SE", "GR", "GR"), ("SE", "CO", "GR"), ("SE", "PR", "PR"), ("SE", "ST", "ST"), ("SE", "SST", "SST"), ("SE", "STG", "STG"), ("SE", "ID", "ID"), ("DC", "GR", "GR"), ("DC", "CO", "CO"), ("DC", "PR", "CO"), ("DC", "ST", "ST"), ("DC", "SST", "SST"), ("DC", "STG", "STG"), ("DC", "ID", "ID"), ("DS", "GR", "GR"), ("DS", "CO", "GR"), ("DS", "PR", "PR"), ("DS", "ST", "ST"), ("DS", "SST", "SST"), ("DS", "STG", "STG"), ("DS", "ID", "ID")]

/-- `create_encoder`: (semantics of the arm, `[]` for `_`; guard on the literal problem string, default `--encoding`, `--encoding` value, encoder), in source order -/
def encoderTable : List (List String × String × String × String × String) := [(["GR", "ST"], "", "", "", "none"), (["STG"], "", "exp", "aux_var", "auxCF"), (["STG"], "", "exp", "exp", "expCF"), (["STG"], "", "exp", "hybrid", "expCF"), (["PR"], "SE-PR", "aux_var", "aux_var", "auxADM"), (["PR"], "SE-PR", "aux_var", "exp", "expCO"), (["PR"], "SE-PR", "aux_var", "hybrid", "hyb"), ([], "", "aux_var", "aux_var", "auxCO"), ([], "", "aux_var", "exp", "expCO"), ([], "", "aux_var", "hybrid", "hyb")]

end Crusta.Gen
