import Crusta.Model.Equiv
import Crusta.Proofs.Semantics
import Crusta.Proofs.Deciders

/-!
# Soundness of the equivalence reduction (`utils::EquivalencyComputer`)

* `propagate_sound`   — unit propagation of "accepted" arguments is sound for complete semantics;
* `classes_partition` — the computed classes partition the arguments;
* `classes_sound`, `special_classes` — merged arguments are indistinguishable under CO;
* `maps_inverse`      — `initToReduced` maps every argument to the index of its class.
-/

namespace Crusta.Eq
open Crusta

/-! ## list helpers -/

theorem getD_set' {α : Type} (l : List α) (i j : Nat) (v d : α) :
    (l.set i v).getD j d = if i = j ∧ i < l.length then v else l.getD j d := by
  simp only [List.getD_eq_getElem?_getD, List.getElem?_set]
  split
  · next h => subst h; by_cases hi : i < l.length <;> simp [hi]
  · next h => simp [h]

theorem getD_set_eq {α : Type} (l : List α) (i : Nat) (v d : α) (h : i < l.length) :
    (l.set i v).getD i d = v := by
  rw [getD_set']; simp [h]

theorem getD_set_ne {α : Type} (l : List α) (i j : Nat) (v d : α) (h : i ≠ j) :
    (l.set i v).getD j d = l.getD j d := by
  rw [getD_set']; simp [h]

theorem getD_ge {α : Type} (l : List α) (i : Nat) (d : α) (h : l.length ≤ i) : l.getD i d = d := by
  simp [List.getD_eq_getElem?_getD, List.getElem?_eq_none h]

/-- marking a list of indices in a flag array -/
theorem foldl_flags (l : List Nat) (acc : List Bool) (h : ∀ a ∈ l, a < acc.length) :
    (l.foldl (fun acc a => acc.set a true) acc).length = acc.length ∧
    ∀ x, (l.foldl (fun acc a => acc.set a true) acc).getD x false = true ↔
      (acc.getD x false = true ∨ x ∈ l) := by
  induction l generalizing acc with
  | nil => simp
  | cons a l ih =>
    have h1 : ∀ b ∈ l, b < (acc.set a true).length := by
      intro b hb; simp; exact h b (by simp [hb])
    obtain ⟨ihl, ihx⟩ := ih (acc.set a true) h1
    refine ⟨by simpa using ihl, ?_⟩
    intro x
    rw [List.foldl_cons, ihx x, getD_set']
    have ha : a < acc.length := h a (by simp)
    by_cases hax : a = x
    · subst hax; simp [ha]
    · simp [hax]; constructor
      · rintro (h | h); exact Or.inl h; exact Or.inr (Or.inr h)
      · rintro (h | h | h); exact Or.inl h; exact absurd h.symm hax; exact Or.inr h

theorem getD_replicate_false (n x : Nat) : (List.replicate n false).getD x false = false := by
  simp [List.getD_eq_getElem?_getD, List.getElem?_replicate]
  split <;> simp

/-- a sub-predicate counted at least as often as the predicate is implied by it -/
theorem all_of_countP_ge {α : Type} (l : List α) (q r : α → Bool)
    (h : l.countP q ≤ l.countP (fun x => q x && r x)) : ∀ x ∈ l, q x = true → r x = true := by
  induction l with
  | nil => simp
  | cons y l ih =>
    have hle : l.countP (fun x => q x && r x) ≤ l.countP q :=
      List.countP_mono_left (fun x _ hx => by simp at hx; exact hx.1)
    intro x hx hq
    simp only [List.countP_cons] at h
    rcases List.mem_cons.1 hx with rfl | hx'
    · cases hry : r x
      · simp [hq, hry] at h; omega
      · rfl
    · apply ih _ x hx' hq
      cases hqy : q y <;> cases hry : r y <;> simp [hqy, hry] at h <;> omega

/-! ## counters -/

/-- number of attack entries into `d` (duplicates counted) -/
def tot (af : AF) (d : Nat) : Nat := af.atts.countP (fun p => p.2 == d)

/-- number of attack entries into `d` whose source lies in `D` -/
def consumed (af : AF) (D : List Nat) (d : Nat) : Nat :=
  af.atts.countP (fun p => p.2 == d && decide (p.1 ∈ D))

theorem consumed_le (af : AF) (D : List Nat) (d : Nat) : consumed af D d ≤ tot af d :=
  List.countP_mono_left (fun x _ hx => by simp at hx; simp [hx.1])

theorem consumed_nil (af : AF) (d : Nat) : consumed af [] d = 0 := by
  simp [consumed]

theorem consumed_snoc (af : AF) (D : List Nat) (t d : Nat) (ht : t ∉ D) :
    consumed af (D ++ [t]) d = consumed af D d + (af.attackedOf t).count d := by
  unfold consumed AF.attackedOf
  generalize af.atts = l
  induction l with
  | nil => simp
  | cons p l ih =>
    simp only [List.countP_cons, List.filter_cons, ih]
    by_cases h1 : p.1 = t
    · have h3 : p.1 ∉ D := by rw [h1]; exact ht
      by_cases h2 : p.2 = d <;> simp [h1, h2, ht] <;> omega
    · by_cases h2 : p.2 = d <;> by_cases h3 : p.1 ∈ D <;> simp [h1, h2, h3] <;> omega

theorem foldl_cnt (l : List (Nat × Nat)) (acc : List Nat) (h : ∀ p ∈ l, p.2 < acc.length) (d : Nat) :
    (l.foldl (fun acc p => acc.set p.2 (acc.getD p.2 0 + 1)) acc).length = acc.length ∧
    (l.foldl (fun acc p => acc.set p.2 (acc.getD p.2 0 + 1)) acc).getD d 0 =
      acc.getD d 0 + l.countP (fun p => p.2 == d) := by
  induction l generalizing acc with
  | nil => simp
  | cons p l ih =>
    have h1 : ∀ q ∈ l, q.2 < (acc.set p.2 (acc.getD p.2 0 + 1)).length := by
      intro q hq; simp; exact h q (by simp [hq])
    obtain ⟨ihl, ihx⟩ := ih _ h1
    refine ⟨by simpa using ihl, ?_⟩
    rw [List.foldl_cons, ihx, getD_set', List.countP_cons]
    have hp : p.2 < acc.length := h p (by simp)
    by_cases hpd : p.2 = d
    · subst hpd; simp [hp]; omega
    · simp [hpd]

theorem nAttacksTo_length (af : AF) (hwf : af.WF) : (nAttacksTo af).length = af.n := by
  have := (foldl_cnt af.atts (List.replicate af.n 0) (by intro p hp; simpa using (hwf p hp).2) 0).1
  simpa [nAttacksTo] using this

theorem nAttacksTo_getD (af : AF) (hwf : af.WF) (d : Nat) : (nAttacksTo af).getD d 0 = tot af d := by
  have := (foldl_cnt af.atts (List.replicate af.n 0) (by intro p hp; simpa using (hwf p hp).2) d).2
  unfold nAttacksTo tot
  rw [this]
  have : (List.replicate af.n 0).getD d 0 = 0 := by
    simp [List.getD_eq_getElem?_getD, List.getElem?_replicate]; split <;> simp
  omega

theorem mem_attackedOf {af : AF} {a t : Nat} : t ∈ af.attackedOf a ↔ (a, t) ∈ af.atts := by
  unfold AF.attackedOf
  simp only [List.mem_map, List.mem_filter, beq_iff_eq]
  constructor
  · rintro ⟨p, ⟨hp, h1⟩, h2⟩; cases p; simp at h1 h2; subst h1 h2; exact hp
  · intro h; exact ⟨(a, t), ⟨h, rfl⟩, rfl⟩

/-! ## the propagation invariant -/

/-- invariant of the propagation state; `extra` is the not-yet-processed part of the attack row of
the argument that has just been defeated (empty between two runs of `defendLoop`) -/
structure PInv (af : AF) (args : List Nat) (extra : List Nat) (st : PSt) : Prop where
  lenC : st.cnt.length = af.n
  lenP : st.inProp.length = af.n
  lenD : st.inDef.length = af.n
  propLt : ∀ x ∈ st.propagated, x < af.n
  defLt : ∀ x ∈ st.defeated, x < af.n
  flagP : ∀ x, st.inProp.getD x false = true ↔ x ∈ st.propagated
  flagD : ∀ x, st.inDef.getD x false = true ↔ x ∈ st.defeated
  rest : ∃ r, st.propagated = args ++ r ∧ r.Nodup ∧ ∀ x ∈ r, x ∉ args ∧ st.cnt.getD x 0 = 0
  defNodup : st.defeated.Nodup
  disj : ∀ x ∈ st.defeated, x ∉ st.propagated
  defAtt : ∀ x ∈ st.defeated, ∃ q ∈ st.propagated, (q, x) ∈ af.atts
  ctr : ∀ d, tot af d + extra.count d ≤ st.cnt.getD d 0 + consumed af st.defeated d
  sem : ∀ S, Complete af S → (∀ a ∈ args, S a = true) →
      (∀ x ∈ st.propagated, S x = true) ∧ (∀ x ∈ st.defeated, AttackedBy af S x)

theorem PInv.weaken {af : AF} {args e e' : List Nat} {st : PSt} (h : PInv af args e st)
    (he : ∀ d, e'.count d ≤ e.count d) : PInv af args e' st :=
  { h with ctr := fun d => by have := h.ctr d; have := he d; omega }

/-- decrementing the counter of the next target `d` of the defeated argument -/
theorem PInv.dec {af : AF} {args ds : List Nat} {d : Nat} {st : PSt} (h : PInv af args (d :: ds) st)
    (hd : d < af.n) :
    1 ≤ st.cnt.getD d 0 ∧ (d ∉ args → d ∉ st.propagated) ∧
    PInv af args ds { st with cnt := st.cnt.set d (st.cnt.getD d 0 - 1) } := by
  have h1 : 1 ≤ st.cnt.getD d 0 := by
    have h2 := h.ctr d
    have h3 := consumed_le af st.defeated d
    rw [List.count_cons_self] at h2; omega
  obtain ⟨r, hr1, hr2, hr3⟩ := h.rest
  have hnr : d ∉ r := fun hdr => by have := (hr3 d hdr).2; omega
  refine ⟨h1, ?_, ?_⟩
  · intro hda; rw [hr1]; simp [hda, hnr]
  · exact
    { lenC := by simpa using h.lenC
      lenP := h.lenP
      lenD := h.lenD
      propLt := h.propLt
      defLt := h.defLt
      flagP := h.flagP
      flagD := h.flagD
      rest := by
        refine ⟨r, hr1, hr2, ?_⟩
        intro x hx
        refine ⟨(hr3 x hx).1, ?_⟩
        show (st.cnt.set d _).getD x 0 = 0
        have : d ≠ x := fun hh => hnr (hh ▸ hx)
        rw [getD_set_ne _ _ _ _ _ this]; exact (hr3 x hx).2
      defNodup := h.defNodup
      disj := h.disj
      defAtt := h.defAtt
      ctr := by
        intro d'
        show _ ≤ (st.cnt.set d _).getD d' 0 + consumed af st.defeated d'
        have := h.ctr d'
        by_cases hdd : d = d'
        · subst hdd
          have hl : d < st.cnt.length := by rw [h.lenC]; exact hd
          rw [getD_set_eq _ _ _ _ hl]
          rw [List.count_cons_self] at this; omega
        · rw [getD_set_ne _ _ _ _ _ hdd]
          rw [List.count_cons_of_ne (fun hh => hdd hh)] at this
          exact this
      sem := h.sem }

/-- an argument whose counter has reached zero is propagated -/
theorem PInv.push {af : AF} {args ds : List Nat} {d : Nat} {st : PSt} (h : PInv af args ds st)
    (hd : d < af.n) (hda : d ∉ args) (hdp : d ∉ st.propagated) (hc : st.cnt.getD d 0 = 0) :
    PInv af args ds { st with propagated := st.propagated ++ [d], inProp := st.inProp.set d true } := by
  -- all attackers of `d` have been defeated
  have hall : ∀ b, (b, d) ∈ af.atts → b ∈ st.defeated := by
    intro b hb
    have h1 := h.ctr d
    have h2 : af.atts.countP (fun p => p.2 == d) ≤
        af.atts.countP (fun p => p.2 == d && decide (p.1 ∈ st.defeated)) := by
      unfold tot consumed at h1; omega
    have := all_of_countP_ge _ _ _ h2 (b, d) hb (by simp)
    simpa using this
  have hnd : d ∉ st.defeated := by
    intro hdd
    obtain ⟨q, hq, hqd⟩ := h.defAtt d hdd
    exact h.disj q (hall q hqd) hq
  obtain ⟨r, hr1, hr2, hr3⟩ := h.rest
  exact
    { lenC := h.lenC
      lenP := by simpa using h.lenP
      lenD := h.lenD
      propLt := by
        intro x hx
        rcases List.mem_append.1 hx with hx | hx
        · exact h.propLt x hx
        · simp at hx; omega
      defLt := h.defLt
      flagP := by
        intro x
        show (st.inProp.set d true).getD x false = true ↔ x ∈ st.propagated ++ [d]
        have hl : d < st.inProp.length := by rw [h.lenP]; exact hd
        by_cases hdx : d = x
        · subst hdx; rw [getD_set_eq _ _ _ _ hl]; simp
        · have : ¬ x = d := fun hh => hdx hh.symm
          rw [getD_set_ne _ _ _ _ _ hdx, h.flagP x]; simp [this]
      flagD := h.flagD
      rest := by
        refine ⟨r ++ [d], by show st.propagated ++ [d] = _; rw [hr1, List.append_assoc], ?_, ?_⟩
        · rw [List.nodup_append]
          refine ⟨hr2, by simp, ?_⟩
          intro a ha b hb
          simp at hb; subst hb
          intro hab; subst hab
          apply hdp; rw [hr1]; simp [ha]
        · intro x hx
          rcases List.mem_append.1 hx with hx | hx
          · exact hr3 x hx
          · simp at hx; subst hx; exact ⟨hda, hc⟩
      defNodup := h.defNodup
      disj := by
        intro x hx hxp
        rcases List.mem_append.1 hxp with hxp | hxp
        · exact h.disj x hx hxp
        · simp at hxp; subst hxp; exact hnd hx
      defAtt := by
        intro x hx
        obtain ⟨q, hq, hqx⟩ := h.defAtt x hx
        exact ⟨q, List.mem_append_left _ hq, hqx⟩
      ctr := h.ctr
      sem := by
        intro S hS hargs
        obtain ⟨hp, hdf⟩ := h.sem S hS hargs
        refine ⟨?_, hdf⟩
        intro x hx
        rcases List.mem_append.1 hx with hx | hx
        · exact hp x hx
        · simp at hx; subst hx
          exact hS.2 x hd (fun b hb => hdf b (hall b hb)) }

theorem defendLoop_inv (af : AF) (args : List Nat) (ds : List Nat) (st : PSt)
    (hds : ∀ d ∈ ds, d < af.n) (h : PInv af args ds st) :
    PInv af args [] (defendLoop args st ds) ∧
    (∀ x ∈ st.propagated, x ∈ (defendLoop args st ds).propagated) := by
  induction ds generalizing st with
  | nil => exact ⟨h, fun x hx => hx⟩
  | cons d ds ih =>
    have hds' : ∀ d ∈ ds, d < af.n := fun x hx => hds x (by simp [hx])
    have hd : d < af.n := hds d (by simp)
    unfold defendLoop
    split
    · exact ih st hds' (h.weaken (fun x => List.count_le_count_cons))
    · next hc =>
      have hda : d ∉ args := by simpa using hc
      obtain ⟨h1, h2, h3⟩ := h.dec hd
      have hl : d < st.cnt.length := by rw [h.lenC]; exact hd
      simp only []
      split
      · next hz =>
        have hz' : st.cnt.getD d 0 - 1 = 0 := by simpa using hz
        have := h3.push hd hda (h2 hda) (by
          show (st.cnt.set d _).getD d 0 = 0
          rw [getD_set_eq _ _ _ _ hl]; exact hz')
        obtain ⟨i1, i2⟩ := ih _ hds' this
        exact ⟨i1, fun x hx => i2 x (List.mem_append_left _ hx)⟩
      · exact ih _ hds' h3

/-- defeating a target `t` of a propagated argument -/
theorem PInv.defeat {af : AF} {args : List Nat} {id t : Nat} {st : PSt} (h : PInv af args [] st)
    (hwf : af.WF) (hatt : (id, t) ∈ af.atts) (hid : id ∈ st.propagated)
    (hp : st.inProp.getD t false = false) (hdf : st.inDef.getD t false = false) :
    PInv af args (af.attackedOf t)
      { st with defeated := st.defeated ++ [t], inDef := st.inDef.set t true } := by
  have ht : t < af.n := (hwf _ hatt).2
  have htp : t ∉ st.propagated := fun hh => by rw [(h.flagP t).2 hh] at hp; cases hp
  have htd : t ∉ st.defeated := fun hh => by rw [(h.flagD t).2 hh] at hdf; cases hdf
  exact
    { lenC := h.lenC
      lenP := h.lenP
      lenD := by simpa using h.lenD
      propLt := h.propLt
      defLt := by
        intro x hx
        rcases List.mem_append.1 hx with hx | hx
        · exact h.defLt x hx
        · simp at hx; omega
      flagP := h.flagP
      flagD := by
        intro x
        show (st.inDef.set t true).getD x false = true ↔ x ∈ st.defeated ++ [t]
        have hl : t < st.inDef.length := by rw [h.lenD]; exact ht
        by_cases hdx : t = x
        · subst hdx; rw [getD_set_eq _ _ _ _ hl]; simp
        · have : ¬ x = t := fun hh => hdx hh.symm
          rw [getD_set_ne _ _ _ _ _ hdx, h.flagD x]; simp [this]
      rest := h.rest
      defNodup := by
        rw [List.nodup_append]
        refine ⟨h.defNodup, by simp, ?_⟩
        intro a ha b hb
        simp at hb; subst hb
        intro hab; subst hab; exact htd ha
      disj := by
        intro x hx
        rcases List.mem_append.1 hx with hx | hx
        · exact h.disj x hx
        · simp at hx; subst hx; exact htp
      defAtt := by
        intro x hx
        rcases List.mem_append.1 hx with hx | hx
        · exact h.defAtt x hx
        · simp at hx; subst hx; exact ⟨id, hid, hatt⟩
      ctr := by
        intro d
        show _ ≤ _ + consumed af (st.defeated ++ [t]) d
        rw [consumed_snoc af _ _ _ htd]
        have := h.ctr d
        rw [List.count_nil] at this
        show _ ≤ st.cnt.getD d 0 + _
        omega
      sem := by
        intro S hS hargs
        obtain ⟨hpS, hdS⟩ := h.sem S hS hargs
        refine ⟨hpS, ?_⟩
        intro x hx
        rcases List.mem_append.1 hx with hx | hx
        · exact hdS x hx
        · simp at hx; subst hx; exact ⟨id, hatt, hpS id hid⟩ }

theorem attackLoop_inv (af : AF) (hwf : af.WF) (args : List Nat) (id : Nat) (ts : List Nat) (st : PSt)
    (hts : ∀ t ∈ ts, (id, t) ∈ af.atts) (hid : id ∈ st.propagated) (h : PInv af args [] st) :
    (∀ st', attackLoop af args st ts = some st' →
      PInv af args [] st' ∧ ∀ x ∈ st.propagated, x ∈ st'.propagated) ∧
    (attackLoop af args st ts = none → ¬ ∃ S, Complete af S ∧ ∀ a ∈ args, S a = true) := by
  induction ts generalizing st with
  | nil =>
    refine ⟨?_, by simp [attackLoop]⟩
    intro st' heq
    simp only [attackLoop, Option.some.injEq] at heq
    subst heq; exact ⟨h, fun x hx => hx⟩
  | cons t ts ih =>
    have hts' : ∀ t ∈ ts, (id, t) ∈ af.atts := fun x hx => hts x (by simp [hx])
    have hatt : (id, t) ∈ af.atts := hts t (by simp)
    rw [attackLoop]
    by_cases hp : st.inProp.getD t false = true
    · rw [if_pos hp]
      refine ⟨by simp, ?_⟩
      rintro - ⟨S, hS, hargs⟩
      obtain ⟨hpS, _⟩ := h.sem S hS hargs
      exact hS.1.1.2 t (hpS t ((h.flagP t).1 hp)) ⟨id, hatt, hpS id hid⟩
    · rw [if_neg hp]
      by_cases hdf : st.inDef.getD t false = true
      · rw [if_pos hdf]; exact ih st hts' hid h
      · rw [if_neg hdf]
        have hp' : st.inProp.getD t false = false := by simpa using hp
        have hdf' : st.inDef.getD t false = false := by simpa using hdf
        have h1 := h.defeat hwf hatt hid hp' hdf'
        have hrow : ∀ d ∈ af.attackedOf t, d < af.n := fun d hd => (hwf _ (mem_attackedOf.1 hd)).2
        obtain ⟨h2, h3⟩ := defendLoop_inv af args _ _ hrow h1
        obtain ⟨i1, i2⟩ := ih _ hts' (h3 id hid) h2
        refine ⟨?_, i2⟩
        intro st' heq
        obtain ⟨j1, j2⟩ := i1 st' heq
        exact ⟨j1, fun x hx => j2 x (h3 x hx)⟩

theorem propLoop_inv (af : AF) (hwf : af.WF) (args : List Nat) (fuel i : Nat) (st : PSt)
    (h : PInv af args [] st) :
    (∀ st', propLoop af args fuel i st = some st' → PInv af args [] st') ∧
    (propLoop af args fuel i st = none → ¬ ∃ S, Complete af S ∧ ∀ a ∈ args, S a = true) := by
  induction fuel generalizing i st with
  | zero =>
    refine ⟨?_, by simp [propLoop]⟩
    intro st' heq
    simp only [propLoop, Option.some.injEq] at heq
    subst heq; exact h
  | succ fuel ih =>
    rw [propLoop]
    cases hid : st.propagated[i]? with
    | none =>
      refine ⟨?_, by simp⟩
      intro st' heq
      simp only [Option.some.injEq] at heq
      subst heq; exact h
    | some id =>
      have hmem : id ∈ st.propagated := List.mem_of_getElem? hid
      obtain ⟨a1, a2⟩ := attackLoop_inv af hwf args id (af.attackedOf id) st
        (fun t ht => mem_attackedOf.1 ht) hmem h
      cases heq : attackLoop af args st (af.attackedOf id) with
      | none => simp only [heq]; exact ⟨by simp, fun _ => a2 heq⟩
      | some st1 => simp only [heq]; exact ih (i + 1) st1 (a1 st1 heq).1

theorem init_inv (af : AF) (hwf : af.WF) (args : List Nat) (hargs : ∀ a ∈ args, a < af.n) :
    PInv af args []
      ⟨nAttacksTo af, args, args.foldl (fun acc a => acc.set a true) (List.replicate af.n false), [],
        List.replicate af.n false⟩ := by
  have hf := foldl_flags args (List.replicate af.n false) (by simpa using hargs)
  exact
    { lenC := nAttacksTo_length af hwf
      lenP := by simpa using hf.1
      lenD := by simp
      propLt := hargs
      defLt := by simp
      flagP := by intro x; simp only []; rw [hf.2 x, getD_replicate_false]; simp
      flagD := by intro x; simp only []; rw [getD_replicate_false]; simp
      rest := ⟨[], by simp, by simp, by simp⟩
      defNodup := by simp
      disj := by simp
      defAtt := by simp
      ctr := by intro d; simp only []; rw [nAttacksTo_getD af hwf]; simp
      sem := by intro S _ hargs; exact ⟨hargs, by simp⟩ }

/-- everything there is to know about a successful propagation -/
theorem propagate_inv (af : AF) (hwf : af.WF) (args : List Nat) (hargs : ∀ a ∈ args, a < af.n) :
    (∀ p d, propagate af (nAttacksTo af) args = some (p, d) →
      ∃ st, PInv af args [] st ∧ st.propagated = p ∧ st.defeated = d) ∧
    (propagate af (nAttacksTo af) args = none → ¬ ∃ S, Complete af S ∧ ∀ a ∈ args, S a = true) := by
  obtain ⟨h1, h2⟩ := propLoop_inv af hwf args (af.n + 1) 0 _ (init_inv af hwf args hargs)
  unfold propagate
  simp only []
  cases heq : propLoop af args (af.n + 1) 0
      ⟨nAttacksTo af, args, args.foldl (fun acc a => acc.set a true) (List.replicate af.n false), [],
        List.replicate af.n false⟩ with
  | none => exact ⟨by simp, fun _ => h2 heq⟩
  | some st' =>
    refine ⟨?_, by simp⟩
    intro p d hpd
    simp only [Option.some.injEq, Prod.mk.injEq] at hpd
    exact ⟨st', h1 st' heq, hpd.1, hpd.2⟩

/-- soundness of propagation: in every complete extension that contains all of `args`, everything
propagated is in and everything defeated is out; a conflict means no complete extension contains all
of `args` -/
theorem propagate_sound (af : AF) (hwf : af.WF) (args : List Nat) (hargs : ∀ a ∈ args, a < af.n) :
    (∀ p d, propagate af (nAttacksTo af) args = some (p, d) →
      ∀ S, Complete af S → (∀ a ∈ args, S a = true) → (∀ x ∈ p, S x = true) ∧ (∀ x ∈ d, S x = false)) ∧
    (propagate af (nAttacksTo af) args = none → ¬ ∃ S, Complete af S ∧ ∀ a ∈ args, S a = true) := by
  obtain ⟨this, hnone⟩ := propagate_inv af hwf args hargs
  constructor
  · intro p d heq S hS hS'
    obtain ⟨st, hinv, rfl, rfl⟩ := this p d heq
    obtain ⟨h1, h2⟩ := hinv.sem S hS hS'
    refine ⟨h1, ?_⟩
    intro x hx
    cases hSx : S x
    · rfl
    · exact absurd (h2 x hx) (hS.1.1.2 x hSx)
  · exact hnone

/-! ## shape facts about a successful propagation -/

theorem propagate_shape (af : AF) (hwf : af.WF) (args : List Nat) (hargs : ∀ a ∈ args, a < af.n)
    (hnd : args.Nodup) (p d : List Nat) (h : propagate af (nAttacksTo af) args = some (p, d)) :
    (p ++ d).Nodup ∧ ∀ x ∈ p ++ d, x < af.n := by
  obtain ⟨st, hinv, rfl, rfl⟩ := (propagate_inv af hwf args hargs).1 p d h
  obtain ⟨r, hr1, hr2, hr3⟩ := hinv.rest
  constructor
  · rw [List.nodup_append]
    refine ⟨?_, hinv.defNodup, ?_⟩
    · rw [hr1, List.nodup_append]
      refine ⟨hnd, hr2, ?_⟩
      intro a ha b hb hab; subst hab; exact (hr3 a hb).1 ha
    · intro a ha b hb hab; subst hab; exact hinv.disj a hb ha
  · intro x hx
    rcases List.mem_append.1 hx with hx | hx
    · exact hinv.propLt x hx
    · exact hinv.defLt x hx

/-- `i` forces `x`: every complete extension containing `i` contains `x` -/
def Forces (af : AF) (i x : Nat) : Prop := ∀ S, Complete af S → S i = true → S x = true

theorem same_of_forces {af : AF} {a b : Nat} (h1 : Forces af a b) (h2 : Forces af b a)
    (S : ASet) (hS : Complete af S) : S a = S b := by
  cases ha : S a
  · cases hb : S b
    · rfl
    · rw [h2 S hS hb] at ha; cases ha
  · exact (h1 S hS ha).symm

/-- what a cached list for `i` has to satisfy -/
def ListOK (af : AF) (i : Nat) (p : List Nat) : Prop :=
  p.Nodup ∧ ∀ x ∈ p, x < af.n ∧ Forces af i x

theorem listOK_nil (af : AF) (i : Nat) : ListOK af i [] := ⟨by simp, by simp⟩

theorem propagate_single (af : AF) (hwf : af.WF) (i : Nat) (hi : i < af.n) (p d : List Nat)
    (h : propagate af (nAttacksTo af) [i] = some (p, d)) : ListOK af i p := by
  have hargs : ∀ a ∈ [i], a < af.n := by simpa using hi
  obtain ⟨h1, h2⟩ := propagate_shape af hwf [i] hargs (by simp) p d h
  refine ⟨(List.nodup_append.1 h1).1, ?_⟩
  intro x hx
  refine ⟨h2 x (List.mem_append_left _ hx), ?_⟩
  intro S hS hSi
  exact ((propagate_sound af hwf [i] hargs).1 p d h S hS (by simpa using hSi)).1 x hx

def CacheOK (af : AF) (props : List (Option (List Nat))) : Prop :=
  ∀ i p, props.getD i none = some p → ListOK af i p

theorem CacheOK.set {af : AF} {props : List (Option (List Nat))} (h : CacheOK af props) (i : Nat)
    (p : List Nat) (hp : ListOK af i p) : CacheOK af (props.set i (some p)) := by
  intro j q hq
  rw [getD_set'] at hq
  split at hq
  · next hc => simp only [Option.some.injEq] at hq; rw [← hc.1, ← hq]; exact hp
  · exact h j q hq

/-! ## one step of class construction -/

abbrev Acc := List Nat × List Bool × List (Option (List Nat))

def pidOf (af : AF) (cnt : List Nat) (id : Nat) : List Nat :=
  match propagate af cnt [id] with | some q => q.1 | none => []

def mergeStep (af : AF) (cnt : List Nat) (arg : Nat) (acc : Acc) (id : Nat) : Acc :=
  if (pidOf af cnt id).contains arg then (acc.1 ++ [id], acc.2.1.set id true, acc.2.2.set id (some []))
  else (acc.1, acc.2.1, acc.2.2.set id (some (pidOf af cnt id)))

def lookup (af : AF) (cnt : List Nat) (st : CSt) (arg : Nat) :
    Option (List Nat) × List (Option (List Nat)) :=
  match st.props.getD arg none with
  | some p => (some p, st.props.set arg (some []))
  | none => ((propagate af cnt [arg]).map (fun q => q.1), st.props)

theorem classStep_eq (af : AF) (cnt : List Nat) (st : CSt) (arg : Nat) :
    classStep af cnt st arg =
      if st.inClasses.getD arg false then st
      else
        match (lookup af cnt st arg).1 with
        | none => ⟨st.classes ++ [(⟨.other, [arg]⟩ : Cls)], st.inClasses.set arg true, (lookup af cnt st arg).2⟩
        | some p =>
          let r := (p.filter (fun id => !((st.inClasses.set arg true).getD id false) && id > arg)).foldl
            (mergeStep af cnt arg) ([arg], st.inClasses.set arg true, (lookup af cnt st arg).2)
          ⟨st.classes ++ [(⟨.other, r.1⟩ : Cls)], r.2.1, r.2.2⟩ := by
  unfold classStep lookup
  split
  · rfl
  · cases st.props.getD arg none <;> rfl

/-- invariant of the inner (merging) loop; `F` is the list of already classified arguments -/
structure MInv (af : AF) (arg : Nat) (F : List Nat) (acc : Acc) : Prop where
  len : acc.2.1.length = af.n
  flag : ∀ a, acc.2.1.getD a false = true ↔ (a ∈ F ∨ a ∈ acc.1)
  nodup : acc.1.Nodup
  lt : ∀ a ∈ acc.1, a < af.n
  disj : ∀ a ∈ acc.1, a ∉ F
  same : ∀ a ∈ acc.1, ∀ S, Complete af S → S a = S arg
  cache : CacheOK af acc.2.2

theorem merge_fold (af : AF) (hwf : af.WF) (arg : Nat) (F : List Nat) (rem : List Nat) (acc : Acc)
    (h : MInv af arg F acc) (hnd : rem.Nodup)
    (hrem : ∀ id ∈ rem, id < af.n ∧ id ∉ F ∧ id ∉ acc.1 ∧ Forces af arg id) :
    MInv af arg F (rem.foldl (mergeStep af (nAttacksTo af) arg) acc) ∧
    ∀ a ∈ acc.1, a ∈ (rem.foldl (mergeStep af (nAttacksTo af) arg) acc).1 := by
  induction rem generalizing acc with
  | nil => exact ⟨h, fun a ha => ha⟩
  | cons id rem ih =>
    obtain ⟨hid, hidF, hidA, hidFo⟩ := hrem id (by simp)
    have hnd' : rem.Nodup := (List.nodup_cons.1 hnd).2
    have hidrem : id ∉ rem := (List.nodup_cons.1 hnd).1
    rw [List.foldl_cons]
    -- the freshly computed list for `id`
    have hpid : ListOK af id (pidOf af (nAttacksTo af) id) := by
      unfold pidOf
      cases hq : propagate af (nAttacksTo af) [id] with
      | none => exact listOK_nil af id
      | some q => exact propagate_single af hwf id hid q.1 q.2 hq
    have hms : mergeStep af (nAttacksTo af) arg acc id =
        if (pidOf af (nAttacksTo af) id).contains arg then
          (acc.1 ++ [id], acc.2.1.set id true, acc.2.2.set id (some []))
        else (acc.1, acc.2.1, acc.2.2.set id (some (pidOf af (nAttacksTo af) id))) := rfl
    rw [hms]
    by_cases hc : (pidOf af (nAttacksTo af) id).contains arg = true
    · rw [if_pos hc]
      have harg : Forces af id arg := (hpid.2 arg (by simpa using hc)).2
      have hstep : MInv af arg F (acc.1 ++ [id], acc.2.1.set id true, acc.2.2.set id (some [])) :=
        { len := by simpa using h.len
          flag := by
            intro a
            show (acc.2.1.set id true).getD a false = true ↔ (a ∈ F ∨ a ∈ acc.1 ++ [id])
            have hl : id < acc.2.1.length := by rw [h.len]; exact hid
            by_cases hia : id = a
            · subst hia; rw [getD_set_eq _ _ _ _ hl]; simp
            · have : ¬ a = id := fun hh => hia hh.symm
              rw [getD_set_ne _ _ _ _ _ hia, h.flag a]; simp [this]
          nodup := by
            show (acc.1 ++ [id]).Nodup
            rw [List.nodup_append]
            refine ⟨h.nodup, by simp, ?_⟩
            intro a ha b hb hab; simp at hb; subst hb; subst hab; exact hidA ha
          lt := by
            intro a ha
            rcases List.mem_append.1 ha with ha | ha
            · exact h.lt a ha
            · simp at ha; omega
          disj := by
            intro a ha
            rcases List.mem_append.1 ha with ha | ha
            · exact h.disj a ha
            · simp at ha; subst ha; exact hidF
          same := by
            intro a ha S hS
            rcases List.mem_append.1 ha with ha | ha
            · exact h.same a ha S hS
            · simp at ha; subst ha; exact same_of_forces harg hidFo S hS
          cache := h.cache.set id [] (listOK_nil af id) }
      obtain ⟨i1, i2⟩ := ih _ hstep hnd' (by
        intro x hx
        obtain ⟨x1, x2, x3, x4⟩ := hrem x (by simp [hx])
        refine ⟨x1, x2, ?_, x4⟩
        intro hxa
        rcases List.mem_append.1 hxa with hxa | hxa
        · exact x3 hxa
        · simp at hxa; subst hxa; exact hidrem hx)
      exact ⟨i1, fun a ha => i2 a (List.mem_append_left _ ha)⟩
    · rw [if_neg hc]
      have hstep : MInv af arg F (acc.1, acc.2.1, acc.2.2.set id
          (some (pidOf af (nAttacksTo af) id))) :=
        { h with cache := h.cache.set id _ hpid }
      exact ih _ hstep hnd' (fun x hx => hrem x (by simp [hx]))

/-! ## the class-construction invariant -/

/-- what is claimed of one class -/
def ClsSound (af : AF) (c : Cls) : Prop :=
  (∀ a ∈ c.members, ∀ b ∈ c.members, ∀ S, Complete af S → S a = S b) ∧
  (c.kind = .grounded → ∀ a ∈ c.members, ∀ S, Complete af S → S a = true) ∧
  (c.kind = .defeated → ∀ a ∈ c.members, ∀ S, Complete af S → S a = false)

def flat (cs : List Cls) : List Nat := cs.flatMap (·.members)

theorem flat_append (cs ds : List Cls) : flat (cs ++ ds) = flat cs ++ flat ds := by
  simp [flat]

theorem flat_single (c : Cls) : flat [c] = c.members := by simp [flat]

structure CInv (af : AF) (st : CSt) : Prop where
  len : st.inClasses.length = af.n
  flag : ∀ a, st.inClasses.getD a false = true ↔ a ∈ flat st.classes
  nodup : (flat st.classes).Nodup
  lt : ∀ a ∈ flat st.classes, a < af.n
  cache : CacheOK af st.props
  sound : ∀ c ∈ st.classes, ClsSound af c

theorem lookup_ok (af : AF) (hwf : af.WF) (st : CSt) (arg : Nat) (harg : arg < af.n)
    (h : CacheOK af st.props) :
    CacheOK af (lookup af (nAttacksTo af) st arg).2 ∧
    ∀ p, (lookup af (nAttacksTo af) st arg).1 = some p → ListOK af arg p := by
  unfold lookup
  cases hg : st.props.getD arg none with
  | some p =>
    refine ⟨h.set arg [] (listOK_nil af arg), ?_⟩
    intro q hq; simp only [Option.some.injEq] at hq; subst hq; exact h arg p hg
  | none =>
    refine ⟨h, ?_⟩
    intro q hq
    cases hp : propagate af (nAttacksTo af) [arg] with
    | none => simp [hp] at hq
    | some r =>
      simp [hp] at hq; subst hq
      exact propagate_single af hwf arg harg r.1 r.2 hp

theorem classStep_inv (af : AF) (hwf : af.WF) (st : CSt) (arg : Nat) (harg : arg < af.n)
    (h : CInv af st) :
    CInv af (classStep af (nAttacksTo af) st arg) ∧
    (classStep af (nAttacksTo af) st arg).inClasses.getD arg false = true ∧
    ∀ a, st.inClasses.getD a false = true →
      (classStep af (nAttacksTo af) st arg).inClasses.getD a false = true := by
  rw [classStep_eq]
  by_cases hin : st.inClasses.getD arg false = true
  · rw [if_pos hin]; exact ⟨h, hin, fun a ha => ha⟩
  · rw [if_neg hin]
    have hargF : arg ∉ flat st.classes := fun hh => hin ((h.flag arg).2 hh)
    have hl : arg < st.inClasses.length := by rw [h.len]; exact harg
    obtain ⟨hc2, hc1⟩ := lookup_ok af hwf st arg harg h.cache
    have hflag1 : ∀ a, (st.inClasses.set arg true).getD a false = true ↔ (a ∈ flat st.classes ∨ a ∈ [arg]) := by
      intro a
      by_cases hia : arg = a
      · subst hia; rw [getD_set_eq _ _ _ _ hl]; simp
      · have : ¬ a = arg := fun hh => hia hh.symm
        rw [getD_set_ne _ _ _ _ _ hia, h.flag a]; simp [this]
    -- the initial state of the merging loop
    have hm0 : MInv af arg (flat st.classes)
        ([arg], st.inClasses.set arg true, (lookup af (nAttacksTo af) st arg).2) :=
      { len := by simpa using h.len
        flag := hflag1
        nodup := by simp
        lt := by simpa using harg
        disj := by simpa using hargF
        same := by intro a ha S _; simp at ha; subst ha; rfl
        cache := hc2 }
    -- from a final state of the merging loop to the class invariant
    have hfin : ∀ r : Acc, MInv af arg (flat st.classes) r → arg ∈ r.1 →
        CInv af ⟨st.classes ++ [(⟨.other, r.1⟩ : Cls)], r.2.1, r.2.2⟩ ∧
        r.2.1.getD arg false = true ∧
        ∀ a, st.inClasses.getD a false = true → r.2.1.getD a false = true := by
      intro r hr hargr
      refine ⟨?_, (hr.flag arg).2 (Or.inr hargr), fun a ha => (hr.flag a).2 (Or.inl ((h.flag a).1 ha))⟩
      exact
        { len := hr.len
          flag := by
            intro a
            show r.2.1.getD a false = true ↔ a ∈ flat (st.classes ++ [(⟨.other, r.1⟩ : Cls)])
            rw [flat_append, flat_single, hr.flag a]; simp
          nodup := by
            show (flat (st.classes ++ [(⟨.other, r.1⟩ : Cls)])).Nodup
            rw [flat_append, flat_single, List.nodup_append]
            refine ⟨h.nodup, hr.nodup, ?_⟩
            intro a ha b hb hab; subst hab; exact hr.disj a hb ha
          lt := by
            intro a ha
            change a ∈ flat (st.classes ++ [(⟨.other, r.1⟩ : Cls)]) at ha
            rw [flat_append, flat_single] at ha
            rcases List.mem_append.1 ha with ha | ha
            · exact h.lt a ha
            · exact hr.lt a ha
          cache := hr.cache
          sound := by
            intro c hc
            change c ∈ st.classes ++ [(⟨.other, r.1⟩ : Cls)] at hc
            rcases List.mem_append.1 hc with hc | hc
            · exact h.sound c hc
            · simp at hc; subst hc
              refine ⟨?_, by simp, by simp⟩
              intro a ha b hb S hS
              exact (hr.same a ha S hS).trans (hr.same b hb S hS).symm }
    cases hlk : (lookup af (nAttacksTo af) st arg).1 with
    | none => exact hfin _ hm0 (by simp)
    | some p =>
      simp only []
      have hp := hc1 p hlk
      have hnd : (p.filter (fun id => !((st.inClasses.set arg true).getD id false) && id > arg)).Nodup :=
        hp.1.filter _
      obtain ⟨m1, m2⟩ := merge_fold af hwf arg (flat st.classes) _ _ hm0 hnd (by
        intro id hid
        rw [List.mem_filter] at hid
        obtain ⟨hidp, hcond⟩ := hid
        simp only [Bool.and_eq_true, Bool.not_eq_true', decide_eq_true_eq] at hcond
        have hnf : ¬ (id ∈ flat st.classes ∨ id ∈ [arg]) := by
          intro hh; have := (hflag1 id).2 hh; rw [hcond.1] at this; cases this
        exact ⟨(hp.2 id hidp).1, fun hh => hnf (Or.inl hh), fun hh => hnf (Or.inr hh), (hp.2 id hidp).2⟩)
      exact hfin _ m1 (m2 arg (by simp))

theorem fold_classStep (af : AF) (hwf : af.WF) (l : List Nat) (st : CSt) (hl : ∀ a ∈ l, a < af.n)
    (h : CInv af st) :
    CInv af (l.foldl (classStep af (nAttacksTo af)) st) ∧
    ∀ a, (a ∈ l ∨ st.inClasses.getD a false = true) →
      (l.foldl (classStep af (nAttacksTo af)) st).inClasses.getD a false = true := by
  induction l generalizing st with
  | nil => exact ⟨h, fun a ha => by simpa using ha⟩
  | cons x l ih =>
    obtain ⟨s1, s2, s3⟩ := classStep_inv af hwf st x (hl x (by simp)) h
    obtain ⟨i1, i2⟩ := ih _ (fun a ha => hl a (by simp [ha])) s1
    rw [List.foldl_cons]
    refine ⟨i1, ?_⟩
    intro a ha
    rcases ha with ha | ha
    · rcases List.mem_cons.1 ha with rfl | ha
      · exact i2 _ (Or.inr s2)
      · exact i2 _ (Or.inl ha)
    · exact i2 _ (Or.inr (s3 a ha))

/-! ## the computed classes -/

/-- everything the four class theorems need -/
structure Good (af : AF) (cs : List Cls) : Prop where
  cover : ∀ a, a < af.n → a ∈ flat cs
  lt : ∀ a ∈ flat cs, a < af.n
  nodup : (flat cs).Nodup
  sound : ∀ c ∈ cs, ClsSound af c

theorem flat_singletons (l : List Nat) : flat (l.map (fun i => (⟨.other, [i]⟩ : Cls))) = l := by
  induction l with
  | nil => rfl
  | cons a l ih => simp [flat] at ih ⊢; exact ih

theorem unattacked_in (af : AF) (hwf : af.WF) (a : Nat)
    (ha : a ∈ (List.range af.n).filter (fun a => (nAttacksTo af).getD a 0 == 0))
    (S : ASet) (hS : Complete af S) : S a = true := by
  rw [List.mem_filter, List.mem_range] at ha
  obtain ⟨han, h0⟩ := ha
  have h0' : tot af a = 0 := by rw [← nAttacksTo_getD af hwf]; simpa using h0
  apply hS.2 a han
  intro b hb
  unfold tot at h0'
  rw [List.countP_eq_zero] at h0'
  have := h0' (b, a) hb
  simp at this

theorem computeClasses_good (af : AF) (hwf : af.WF) : Good af (computeClasses af) := by
  unfold computeClasses
  simp only []
  have hun_lt : ∀ a ∈ (List.range af.n).filter (fun a => (nAttacksTo af).getD a 0 == 0), a < af.n := by
    intro a ha; rw [List.mem_filter, List.mem_range] at ha; exact ha.1
  have hun_nd : ((List.range af.n).filter (fun a => (nAttacksTo af).getD a 0 == 0)).Nodup :=
    List.nodup_range.filter _
  cases hp : propagate af (nAttacksTo af)
      ((List.range af.n).filter (fun a => (nAttacksTo af).getD a 0 == 0)) with
  | none =>
    simp only []
    exact
      { cover := by intro a ha; rw [flat_singletons]; exact List.mem_range.2 ha
        lt := by intro a ha; rw [flat_singletons] at ha; exact List.mem_range.1 ha
        nodup := by rw [flat_singletons]; exact List.nodup_range
        sound := by
          intro c hc
          rw [List.mem_map] at hc
          obtain ⟨i, _, rfl⟩ := hc
          refine ⟨?_, by simp, by simp⟩
          intro a ha b hb S _
          simp at ha hb; subst ha hb; rfl }
  | some gd =>
    obtain ⟨g, d⟩ := gd
    simp only []
    obtain ⟨hnd, hlt⟩ := propagate_shape af hwf _ hun_lt hun_nd g d hp
    have hsem := (propagate_sound af hwf _ hun_lt).1 g d hp
    have hflat : flat ((if g.isEmpty then [] else [(⟨Kind.grounded, g⟩ : Cls)]) ++
        (if d.isEmpty then [] else [(⟨Kind.defeated, d⟩ : Cls)])) = g ++ d := by
      cases g <;> cases d <;> simp [flat]
    have hfl := foldl_flags (g ++ d) (List.replicate af.n false) (by simpa using hlt)
    have h0 : CInv af ⟨(if g.isEmpty then [] else [(⟨Kind.grounded, g⟩ : Cls)]) ++
        (if d.isEmpty then [] else [(⟨Kind.defeated, d⟩ : Cls)]),
        (g ++ d).foldl (fun acc a => acc.set a true) (List.replicate af.n false),
        List.replicate af.n none⟩ :=
      { len := by simpa using hfl.1
        flag := by
          intro a
          simp only []
          rw [hflat, hfl.2 a, getD_replicate_false]; simp
        nodup := by simp only []; rw [hflat]; exact hnd
        lt := by simp only []; rw [hflat]; exact hlt
        cache := by
          intro i p hip
          simp [List.getD_eq_getElem?_getD, List.getElem?_replicate] at hip
          split at hip <;> simp at hip
        sound := by
          intro c hc
          simp only [] at hc
          have hc' : c = ⟨Kind.grounded, g⟩ ∨ c = ⟨Kind.defeated, d⟩ := by
            rcases List.mem_append.1 hc with hc | hc
            · split at hc <;> simp at hc; exact Or.inl hc
            · split at hc <;> simp at hc; exact Or.inr hc
          have hg : ∀ a ∈ g, ∀ S, Complete af S → S a = true := fun a ha S hS =>
            (hsem S hS (fun x hx => unattacked_in af hwf x hx S hS)).1 a ha
          have hd : ∀ a ∈ d, ∀ S, Complete af S → S a = false := fun a ha S hS =>
            (hsem S hS (fun x hx => unattacked_in af hwf x hx S hS)).2 a ha
          rcases hc' with rfl | rfl
          · refine ⟨?_, fun _ => hg, by simp⟩
            intro a ha b hb S hS; rw [hg a ha S hS, hg b hb S hS]
          · refine ⟨?_, by simp, fun _ => hd⟩
            intro a ha b hb S hS; rw [hd a ha S hS, hd b hb S hS] }
    obtain ⟨f1, f2⟩ := fold_classStep af hwf (List.range af.n) _ (fun a ha => List.mem_range.1 ha) h0
    exact
      { cover := fun a ha => (f1.flag a).1 (f2 a (Or.inl (List.mem_range.2 ha)))
        lt := f1.lt
        nodup := f1.nodup
        sound := f1.sound }

/-- the classes partition the arguments -/
theorem classes_partition (af : AF) (hwf : af.WF) :
    (∀ a, a < af.n → ∃ c ∈ computeClasses af, a ∈ c.members) ∧
    (∀ c ∈ computeClasses af, ∀ a ∈ c.members, a < af.n) ∧
    ((computeClasses af).flatMap (·.members)).Nodup := by
  have h := computeClasses_good af hwf
  refine ⟨?_, ?_, h.nodup⟩
  · intro a ha
    have := h.cover a ha
    unfold flat at this
    rw [List.mem_flatMap] at this
    exact this
  · intro c hc a ha
    exact h.lt a (by unfold flat; rw [List.mem_flatMap]; exact ⟨c, hc, ha⟩)

/-- merged arguments are indistinguishable: same membership in every complete extension -/
theorem classes_sound (af : AF) (hwf : af.WF) :
    ∀ c ∈ computeClasses af, ∀ a ∈ c.members, ∀ b ∈ c.members, ∀ S, Complete af S → S a = S b :=
  fun c hc => ((computeClasses_good af hwf).sound c hc).1

/-- the special classes: members of a `grounded` class are in every complete extension, members of a
`defeated` class are in none -/
theorem special_classes (af : AF) (hwf : af.WF) :
    ∀ c ∈ computeClasses af, (c.kind = .grounded → ∀ a ∈ c.members, ∀ S, Complete af S → S a = true) ∧
      (c.kind = .defeated → ∀ a ∈ c.members, ∀ S, Complete af S → S a = false) :=
  fun c hc => ((computeClasses_good af hwf).sound c hc).2

/-! ## the argument-to-class map -/

theorem setAll (ms : List Nat) (ci : Nat) (acc : List Nat) :
    (ms.foldl (fun a m => a.set m ci) acc).length = acc.length ∧
    ∀ x, (ms.foldl (fun a m => a.set m ci) acc).getD x 0 =
      if x ∈ ms ∧ x < acc.length then ci else acc.getD x 0 := by
  induction ms generalizing acc with
  | nil => simp
  | cons m ms ih =>
    obtain ⟨i1, i2⟩ := ih (acc.set m ci)
    rw [List.foldl_cons]
    refine ⟨by simpa using i1, ?_⟩
    intro x
    rw [i2 x, getD_set', List.length_set]
    by_cases h3 : m = x
    · subst h3
      by_cases h2 : m < acc.length
      · simp [h2]
      · simp [h2]
    · have h3' : ¬ x = m := fun hh => h3 hh.symm
      simp only [List.mem_cons, h3, h3', false_and, false_or, if_false]

theorem flat_cons (c : Cls) (cs : List Cls) : flat (c :: cs) = c.members ++ flat cs := by
  simp [flat]

theorem i2r_fold (cs : List Cls) (k : Nat) (acc : List Nat)
    (hnd : (flat cs).Nodup) (hlt : ∀ a ∈ flat cs, a < acc.length) :
    ((cs.zipIdx k).foldl (fun acc (x : Cls × Nat) => x.1.members.foldl (fun a m => a.set m x.2) acc) acc).length
      = acc.length ∧
    ∀ a, (∀ i c, cs[i]? = some c → a ∈ c.members →
        ((cs.zipIdx k).foldl (fun acc (x : Cls × Nat) => x.1.members.foldl (fun a m => a.set m x.2) acc) acc).getD a 0
          = k + i) ∧
      (a ∉ flat cs →
        ((cs.zipIdx k).foldl (fun acc (x : Cls × Nat) => x.1.members.foldl (fun a m => a.set m x.2) acc) acc).getD a 0
          = acc.getD a 0) := by
  induction cs generalizing k acc with
  | nil => simp [flat]
  | cons c cs ih =>
    rw [flat_cons, List.nodup_append] at hnd
    obtain ⟨_, hnd2, hdis⟩ := hnd
    obtain ⟨s1, s2⟩ := setAll c.members k acc
    have hlt' : ∀ a ∈ flat cs, a < (c.members.foldl (fun a m => a.set m k) acc).length := by
      intro a ha; rw [s1]; exact hlt a (by rw [flat_cons]; exact List.mem_append_right _ ha)
    obtain ⟨i1, i2⟩ := ih (k + 1) _ hnd2 hlt'
    rw [List.zipIdx_cons, List.foldl_cons]
    refine ⟨by rw [i1, s1], ?_⟩
    intro a
    refine ⟨?_, ?_⟩
    · intro i c' hi ha
      cases i with
      | zero =>
        simp only [List.getElem?_cons_zero, Option.some.injEq] at hi; subst hi
        have hnf : a ∉ flat cs := fun hh => hdis a ha a hh rfl
        rw [(i2 a).2 hnf, s2 a]
        have : a < acc.length := hlt a (by rw [flat_cons]; exact List.mem_append_left _ ha)
        simp [ha, this]
      | succ i =>
        simp only [List.getElem?_cons_succ] at hi
        rw [(i2 a).1 i c' hi ha]; omega
    · intro hna
      rw [flat_cons, List.mem_append] at hna
      have h1 : a ∉ c.members := fun hh => hna (Or.inl hh)
      rw [(i2 a).2 (fun hh => hna (Or.inr hh)), s2 a, if_neg (fun hh => h1 hh.1)]

theorem initToReduced_eq (n : Nat) (cs : List Cls) :
    initToReduced n cs =
      (cs.zipIdx 0).foldl (fun acc (x : Cls × Nat) => x.1.members.foldl (fun a m => a.set m x.2) acc)
        (List.replicate n 0) := rfl

/-- for any partition of `{0..n-1}` into classes, `initToReduced` maps every member of the class at
position `i` to `i` -/
theorem initToReduced_spec (n : Nat) (cs : List Cls) (hnd : (flat cs).Nodup) (hlt : ∀ a ∈ flat cs, a < n)
    (i : Nat) (c : Cls) (hi : cs[i]? = some c) (a : Nat) (ha : a ∈ c.members) :
    (initToReduced n cs).getD a 0 = i := by
  rw [initToReduced_eq]
  have := ((i2r_fold cs 0 (List.replicate n 0) hnd (by simpa using hlt)).2 a).1 i c hi ha
  omega

/-- the two mappings are total and inverse at the level of classes: `initToReduced` sends every
argument to the index of the class that contains it -/
theorem maps_inverse (af : AF) (hwf : af.WF) :
    ∀ a, a < af.n → ∃ c, (computeClasses af)[(initToReduced af.n (computeClasses af)).getD a 0]? = some c ∧
      a ∈ c.members := by
  intro a ha
  have h := computeClasses_good af hwf
  have hmem := h.cover a ha
  unfold flat at hmem
  rw [List.mem_flatMap] at hmem
  obtain ⟨c, hc, hac⟩ := hmem
  obtain ⟨i, hi⟩ := List.getElem?_of_mem hc
  refine ⟨c, ?_, hac⟩
  rw [initToReduced_spec af.n _ h.nodup h.lt i c hi a hac]
  exact hi

end Crusta.Eq
