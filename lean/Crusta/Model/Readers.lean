import Crusta.Gen.Unicode

/-!
# Model of the instance readers (`io/iccma23_reader.rs`, `io/aspartix_reader.rs`) on bytes

Total functions `List UInt8 → Except String …`.  Mirrors `BufRead::lines` (split at `\n`, strip a
preceding `\r`, reject invalid UTF-8), `str::split_whitespace` / `trim` (Unicode White_Space),
`parse::<isize>` / `parse::<usize>`, and the four regular expressions of the Aspartix reader as
deterministic scanners (the anchored patterns are unambiguous; `\s` and `\d` tables are
regenerated from the vendored regex-syntax crate).  Text is a list of code points.
-/

namespace Crusta.IO

abbrev Str := List Nat

/-! ## UTF-8 (validating, as `str::from_utf8`) -/

def cont (b : UInt8) : Bool := 0x80 ≤ b && b ≤ 0xBF

def decodeUtf8 : List UInt8 → Option Str
  | [] => some []
  | b0 :: rest =>
    if b0 < 0x80 then (decodeUtf8 rest).map (b0.toNat :: ·)
    else if 0xC2 ≤ b0 && b0 ≤ 0xDF then
      match rest with
      | b1 :: r =>
        if cont b1 then (decodeUtf8 r).map (((b0.toNat - 0xC0) * 64 + (b1.toNat - 0x80)) :: ·) else none
      | _ => none
    else if 0xE0 ≤ b0 && b0 ≤ 0xEF then
      match rest with
      | b1 :: b2 :: r =>
        let ok1 := if b0 == 0xE0 then 0xA0 ≤ b1 && b1 ≤ 0xBF
                   else if b0 == 0xED then 0x80 ≤ b1 && b1 ≤ 0x9F
                   else cont b1
        if ok1 && cont b2 then
          (decodeUtf8 r).map (((b0.toNat - 0xE0) * 4096 + (b1.toNat - 0x80) * 64 + (b2.toNat - 0x80)) :: ·)
        else none
      | _ => none
    else if 0xF0 ≤ b0 && b0 ≤ 0xF4 then
      match rest with
      | b1 :: b2 :: b3 :: r =>
        let ok1 := if b0 == 0xF0 then 0x90 ≤ b1 && b1 ≤ 0xBF
                   else if b0 == 0xF4 then 0x80 ≤ b1 && b1 ≤ 0x8F
                   else cont b1
        if ok1 && cont b2 && cont b3 then
          (decodeUtf8 r).map (((b0.toNat - 0xF0) * 262144 + (b1.toNat - 0x80) * 4096 +
            (b2.toNat - 0x80) * 64 + (b3.toNat - 0x80)) :: ·)
        else none
      | _ => none
    else none

def encodeUtf8 : Str → List UInt8
  | [] => []
  | c :: cs =>
    (if c < 0x80 then [c.toUInt8]
     else if c < 0x800 then [(0xC0 + c / 64).toUInt8, (0x80 + c % 64).toUInt8]
     else if c < 0x10000 then [(0xE0 + c / 4096).toUInt8, (0x80 + c / 64 % 64).toUInt8, (0x80 + c % 64).toUInt8]
     else [(0xF0 + c / 262144).toUInt8, (0x80 + c / 4096 % 64).toUInt8, (0x80 + c / 64 % 64).toUInt8,
           (0x80 + c % 64).toUInt8]) ++ encodeUtf8 cs

/-! ## `BufRead::lines` -/

/-- raw lines: split at `\n`; a final segment without `\n` is a line iff it is non-empty -/
def splitRaw (bs : List UInt8) : List (List UInt8 × Bool) :=
  let rec go (bs : List UInt8) (cur : List UInt8) : List (List UInt8 × Bool) :=
    match bs with
    | [] => if cur.isEmpty then [] else [(cur.reverse, false)]
    | b :: rest => if b == 0x0A then (cur.reverse, true) :: go rest [] else go rest (b :: cur)
  go bs []

/-- strip the `\r` of a `\r\n` terminator (only when the `\n` was there) -/
def stripCr (l : List UInt8 × Bool) : List UInt8 :=
  if l.2 then (match l.1.getLast? with | some 0x0D => l.1.dropLast | _ => l.1) else l.1

/-- the lines as the readers see them: `none` = invalid UTF-8 (an `Err` item of the iterator).
UTF-8 validation is done on the whole raw line including the terminator. -/
def lines (bs : List UInt8) : List (Option Str) :=
  (splitRaw bs).map (fun l => decodeUtf8 (stripCr l))

/-! ## character classes and scanners -/

def inRanges (rs : List (Nat × Nat)) (c : Nat) : Bool := rs.any (fun r => r.1 ≤ c && c ≤ r.2)
def isWs (c : Nat) : Bool := inRanges Gen.whiteSpaceRanges c
def isDigitU (c : Nat) : Bool := inRanges Gen.decimalRanges c
def isAlphaA (c : Nat) : Bool := (65 ≤ c && c ≤ 90) || (97 ≤ c && c ≤ 122)
def isIdStart (c : Nat) : Bool := c == 95 || isAlphaA c
def isIdChar (c : Nat) : Bool := c == 95 || isAlphaA c || isDigitU c

/-- `str::split_whitespace` -/
def splitWs (l : Str) : List Str :=
  let rec go (l : Str) (cur : Str) (acc : List Str) : List Str :=
    match l with
    | [] => (if cur.isEmpty then acc else cur.reverse :: acc).reverse
    | c :: cs => if isWs c then go cs [] (if cur.isEmpty then acc else cur.reverse :: acc) else go cs (c :: cur) acc
  go l [] []

def trimWs (l : Str) : Str := ((l.dropWhile isWs).reverse.dropWhile isWs).reverse

def isAsciiDigit (c : Nat) : Bool := 48 ≤ c && c ≤ 57

def digitsVal (l : Str) : Nat := l.foldl (fun acc c => acc * 10 + (c - 48)) 0

/-- `str::parse::<isize>` (64-bit): optional sign, at least one ASCII digit, range check -/
def parseIsize (w : Str) : Option Int :=
  let (neg, ds) := match w with
    | 45 :: r => (true, r)
    | 43 :: r => (false, r)
    | r => (false, r)
  if ds.isEmpty || !ds.all isAsciiDigit then none
  else
    let v := digitsVal ds
    if neg then (if v ≤ 9223372036854775808 then some (-(v : Int)) else none)
    else (if v ≤ 9223372036854775807 then some (v : Int) else none)

/-- `str::parse::<usize>` (64-bit): optional `+`, at least one ASCII digit, range check -/
def parseUsize (w : Str) : Option Nat :=
  let ds := match w with | 43 :: r => r | r => r
  if ds.isEmpty || !ds.all isAsciiDigit then none
  else let v := digitsVal ds; if v ≤ 18446744073709551615 then some v else none

def strOf (s : String) : Str := s.toList.map Char.toNat

/-! ## ICCMA'23 reader -/

structure IccmaFw where
  n : Nat
  atts : List (Nat × Nat)      -- 0-based, declaration order, duplicates kept
deriving Repr, DecidableEq

structure IccmaSt where
  af : Option IccmaFw := none
  foundEmpty : Bool := false

def readPreamble (words : List Str) : Except String Nat :=
  match words with
  | [w0, w1, w2] =>
    if w0 != strOf "p" then .error "first word of preamble"
    else if w1 != strOf "af" then .error "second word of preamble"
    else match parseIsize w2 with
      | some k => if k ≥ 0 then .ok k.toNat else .error "invalid number of arguments"
      | none => .error "invalid number of arguments"
  | _ => .error "preamble: expected 3 words"

def iccmaLine (st : IccmaSt) (line : Option Str) : Except String IccmaSt :=
  match line with
  | none => .error "invalid UTF-8"
  | some l =>
    if l.head? == some 35 then .ok st
    else if l.isEmpty then .ok { st with foundEmpty := true }
    else if st.foundEmpty then .error "content after an empty line"
    else
      let words := splitWs l
      match st.af with
      | none =>
        match readPreamble words with
        | .ok n => .ok { st with af := some ⟨n, []⟩ }
        | .error e => .error e
      | some af =>
        match words with
        | [w0, w1] =>
          match parseIsize w0, parseIsize w1 with
          | some a, some b =>
            if a ≥ 1 && a.toNat ≤ af.n then
              (if b ≥ 1 && b.toNat ≤ af.n then .ok { st with af := some ⟨af.n, af.atts ++ [(a.toNat - 1, b.toNat - 1)]⟩ }
               else .error "invalid argument index for attacked")
            else .error "invalid argument index for attacker"
          | none, _ => .error "invalid argument index for attacker"
          | _, none => .error "invalid argument index for attacked"
        | _ => .error "error in attack; expected 2 words"

def foldLines {σ : Type} (f : σ → Option Str → Except String σ) : σ → List (Option Str) → Except String σ
  | s, [] => .ok s
  | s, l :: ls => match f s l with | .ok s' => foldLines f s' ls | .error e => .error e

def readIccma (bs : List UInt8) : Except String IccmaFw :=
  match foldLines iccmaLine {} (lines bs) with
  | .error e => .error e
  | .ok st => match st.af with | some af => .ok af | none => .error "missing preamble"

/-- `Iccma23Reader::read_arg_from_str`: the id of the argument -/
def iccmaArgOfStr (n : Nat) (arg : Str) : Option Nat :=
  match parseUsize arg with
  | some k => if k > 0 && k ≤ n then some (k - 1) else none
  | none => none

/-! ## Aspartix reader -/

def dropPrefix (p : Str) (l : Str) : Option Str :=
  if p.isPrefixOf l then some (l.drop p.length) else none

/-- `\s*IDENT\s*` then the given terminator character: returns the identifier and the rest -/
def scanName (l : Str) (term : Nat) : Option (Str × Str) :=
  let l1 := l.dropWhile isWs
  match l1 with
  | c :: _ =>
    if !isIdStart c then none
    else
      let ident := l1.takeWhile isIdChar
      let l2 := (l1.dropWhile isIdChar).dropWhile isWs
      match l2 with
      | t :: rest => if t == term then some (ident, rest) else none
      | [] => none
  | [] => none

/-- `.\s*$` : exactly one arbitrary character, then blanks only -/
def scanTail (l : Str) : Bool :=
  match l with
  | _ :: rest => rest.all isWs
  | [] => false

/-- the strict argument-line pattern `^\s*arg\((\s*ID\s*)\).\s*$` -/
def matchArg (l : Str) : Option Str :=
  match dropPrefix (strOf "arg(") (l.dropWhile isWs) with
  | none => none
  | some r =>
    match scanName r 41 with
    | some (id, rest) => if scanTail rest then some id else none
    | none => none

/-- the strict attack-line pattern `^\s*att\((\s*ID\s*),(\s*ID\s*)\).\s*$` -/
def matchAtt (l : Str) : Option (Str × Str) :=
  match dropPrefix (strOf "att(") (l.dropWhile isWs) with
  | none => none
  | some r =>
    match scanName r 44 with
    | none => none
    | some (a, r2) =>
      match scanName r2 41 with
      | some (b, rest) => if scanTail rest then some (a, b) else none
      | none => none

structure ApxFw where
  labels : List Str
  atts : List (Nat × Nat)      -- indexes into `labels`, insertion order, no duplicates
deriving Repr, DecidableEq

structure ApxSt where
  labels : List Str := []       -- as pushed (duplicates kept until the framework is created)
  af : Option ApxFw := none

def dedup (l : List Str) : List Str := l.foldl (fun acc x => if acc.contains x then acc else acc ++ [x]) []

def idxOf (l : List Str) (x : Str) : Option Nat := l.findIdx? (fun y => y == x)

def apxLine (st : ApxSt) (line : Option Str) : Except String ApxSt :=
  match line with
  | none => .error "invalid UTF-8"
  | some l =>
    if l.all isWs then .ok st
    else match matchArg l with
    | some lab =>
      if st.af.isSome then .error "found an argument declaration after an attack"
      else .ok { st with labels := st.labels ++ [lab] }
    | none =>
      match matchAtt l with
      | none => .error "syntax error"
      | some (a, b) =>
        let af := match st.af with | some af => af | none => ⟨dedup st.labels, []⟩
        match idxOf af.labels a, idxOf af.labels b with
        | some i, some j =>
          if af.atts.contains (i, j) then .ok { st with af := some af }
          else .ok { st with af := some { af with atts := af.atts ++ [(i, j)] } }
        | _, _ => .error "cannot add an attack: unknown argument"

def readApx (bs : List UInt8) : Except String ApxFw :=
  match foldLines apxLine {} (lines bs) with
  | .error e => .error e
  | .ok st => match st.af with | some af => .ok af | none => .ok ⟨dedup st.labels, []⟩

/-! ## writers (`AspartixWriter`, `Iccma23Writer`, status lines) -/

def natToStr (n : Nat) : Str := strOf (toString n)

/-- `arg(L).\n` for every live argument in id order, `att(A,B).\n` for every live attack -/
def writeApx (labels : List Str) (atts : List (Str × Str)) : Str :=
  (labels.flatMap (fun l => strOf "arg(" ++ l ++ strOf ").\n")) ++
  (atts.flatMap (fun p => strOf "att(" ++ p.1 ++ [44] ++ p.2 ++ strOf ").\n"))

def intercalate (sep : Str) : List Str → Str
  | [] => []
  | [x] => x
  | x :: xs => x ++ sep ++ intercalate sep xs

def writeExtIccma (ext : List Str) : Str := [119] ++ ext.flatMap (fun l => 32 :: l) ++ [10]
def writeExtApx (ext : List Str) : Str := [91] ++ intercalate [44] ext ++ [93, 10]
def writeStatus (b : Bool) : Str := strOf (if b then "YES\n" else "NO\n")
def writeNoExt : Str := strOf "NO\n"

/-- parse back an ICCMA witness line `w l1 l2 …\n` -/
def parseExtIccma (s : Str) : Option (List Str) :=
  match s with
  | 119 :: rest =>
    match rest.getLast? with
    | some 10 => some (splitWs rest.dropLast)
    | _ => none
  | _ => none

def splitOnComma (s : Str) : List Str :=
  let rec go (l : Str) (cur : Str) (acc : List Str) : List Str :=
    match l with
    | [] => (cur.reverse :: acc).reverse
    | c :: cs => if c == 44 then go cs [] (cur.reverse :: acc) else go cs (c :: cur) acc
  go s [] []

/-- parse back an Aspartix witness line `[l1,l2,…]\n` -/
def parseExtApx (s : Str) : Option (List Str) :=
  match s with
  | 91 :: rest =>
    match rest.reverse with
    | 10 :: 93 :: body => let b := body.reverse; if b.isEmpty then some [] else some (splitOnComma b)
    | _ => none
  | _ => none

end Crusta.IO
