import Crusta.Model.CliOut
import Crusta.Proofs.RoundTrip

/-!
# stdout of `crustabri solve` parses back to what the answer shows (round trips)

* `parseStdoutWith_stdoutOf`: the line structure, for any writer whose extension line is one
  `\n`-terminated line that its reader reads back;
* `parseStdoutIccma_stdoutIccma`: ICCMA'23 writer, no hypothesis on the answer but its kind;
* `parseStdoutApx_stdoutApx`: Aspartix writer, for pairwise distinct non-empty labels without comma
  and line feed, and printed ids that are positions of labels.
-/

namespace Crusta.IO

/-! ## Aspartix: the labels of an accepted file are identifiers -/

theorem dedup_go_sub (l acc : List Str) :
    ∀ x ∈ l.foldl (fun acc x => if acc.contains x then acc else acc ++ [x]) acc, x ∈ acc ∨ x ∈ l := by
  induction l generalizing acc with
  | nil => intro x hx; exact Or.inl hx
  | cons y ys ih =>
    intro x hx
    simp only [List.foldl_cons] at hx
    split at hx
    · rcases ih acc x hx with h | h
      · exact Or.inl h
      · exact Or.inr (List.mem_cons_of_mem _ h)
    · rcases ih _ x hx with h | h
      · rcases List.mem_append.1 h with h | h
        · exact Or.inl h
        · simp only [List.mem_singleton] at h; subst h; exact Or.inr (List.mem_cons_self ..)
      · exact Or.inr (List.mem_cons_of_mem _ h)

theorem dedup_sub (l : List Str) : ∀ x ∈ dedup l, x ∈ l := fun x hx => by
  rcases dedup_go_sub l [] x hx with h | h
  · cases h
  · exact h

/-- all labels seen so far, and those of the framework once created, are identifiers -/
def ApxStValid (st : ApxSt) : Prop :=
  (∀ l ∈ st.labels, ValidId l) ∧ ∀ af, st.af = some af → ∀ l ∈ af.labels, ValidId l

theorem apxAtt_valid (st st' : ApxSt) (a b : Str) (af0 : ApxFw) (h : ApxStValid st)
    (hv : ∀ x ∈ af0.labels, ValidId x)
    (hr : (match idxOf af0.labels a, idxOf af0.labels b with
      | some i, some j =>
        if af0.atts.contains (i, j) then Except.ok { st with af := some af0 }
        else .ok { st with af := some { af0 with atts := af0.atts ++ [(i, j)] } }
      | _, _ => (.error "cannot add an attack: unknown argument" : Except String ApxSt)) = .ok st') :
    ApxStValid st' := by
  split at hr
  · split at hr
    · cases hr
      refine ⟨h.1, fun af haf => ?_⟩
      simp only [Option.some.injEq] at haf
      subst haf; exact hv
    · cases hr
      refine ⟨h.1, fun af haf => ?_⟩
      simp only [Option.some.injEq] at haf
      subst haf; exact hv
  · cases hr

theorem apxLine_valid (st st' : ApxSt) (line : Option Str) (h : ApxStValid st) (hr : apxLine st line = .ok st') :
    ApxStValid st' := by
  unfold apxLine at hr
  split at hr
  · cases hr
  · rename_i l
    split at hr
    · cases hr; exact h
    · split at hr
      · rename_i lab hlab
        split at hr
        · cases hr
        · cases hr
          refine ⟨fun x hx => ?_, h.2⟩
          rcases List.mem_append.1 hx with hx | hx
          · exact h.1 x hx
          · simp only [List.mem_singleton] at hx; subst hx; exact matchArg_validId _ _ hlab
      · split at hr
        · cases hr
        · rename_i a b _
          simp only [] at hr
          have hv : ∀ x ∈ (match st.af with | some af => af | none => (⟨dedup st.labels, []⟩ : ApxFw)).labels,
              ValidId x := by
            cases haf : st.af with
            | none => exact fun x hx => h.1 x (dedup_sub _ x hx)
            | some af => exact h.2 af haf
          exact apxAtt_valid st st' a b _ h hv hr

theorem foldLines_apx_valid : ∀ (ls : List (Option Str)) (st st' : ApxSt), ApxStValid st →
    foldLines apxLine st ls = .ok st' → ApxStValid st'
  | [], st, st', h, hr => by simp [foldLines] at hr; subst hr; exact h
  | l :: ls, st, st', h, hr => by
    simp only [foldLines] at hr
    split at hr
    · rename_i s' hs'
      exact foldLines_apx_valid ls s' st' (apxLine_valid st s' l h hs') hr
    · cases hr

/-- **every label of a framework the Aspartix reader returns is an identifier** of its label
language (`ValidId`: a letter or `_`, then letters, `_`, decimal digits) -/
theorem readApx_labels_valid (bs : List UInt8) (fw : ApxFw) (h : readApx bs = .ok fw) :
    ∀ l ∈ fw.labels, ValidId l := by
  unfold readApx at h
  split at h
  · cases h
  · rename_i st hst
    have hst' : ApxStValid st :=
      foldLines_apx_valid _ _ st ⟨fun l hl => (by cases hl), fun af h => (by cases h)⟩ hst
    split at h
    · rename_i af haf
      cases h
      exact hst'.2 _ haf
    · cases h
      exact fun x hx => hst'.1 x (dedup_sub _ x hx)

/-- an identifier is non-empty and contains no comma and no line feed -/
theorem validId_printable (l : Str) (h : ValidId l) : l ≠ [] ∧ ∀ c ∈ l, c ≠ 44 ∧ c ≠ 10 := by
  refine ⟨?_, fun c hc => ?_⟩
  · obtain ⟨⟨c, cs, rfl, _⟩, _⟩ := h; simp
  · have := (isIdChar_props c (h.2 c hc)).2.2
    omega

end Crusta.IO

namespace Crusta.Cli
open Crusta Crusta.IO

/-! ## lines -/

theorem linesOf_seg (l : Str) (h : ∀ c ∈ l, c ≠ 10) (rest cur : Str) :
    linesOf (l ++ 10 :: rest) cur = (linesOf rest []).map ((cur.reverse ++ l) :: ·) := by
  induction l generalizing cur with
  | nil => simp [linesOf]
  | cons c cs ih =>
    have hc : (c == 10) = false := by simpa using h c (List.mem_cons_self ..)
    simp only [List.cons_append, linesOf, hc, Bool.false_eq_true, if_false]
    rw [ih (fun d hd => h d (List.mem_cons_of_mem _ hd))]
    simp

theorem linesOf_one (l : Str) (h : ∀ c ∈ l, c ≠ 10) : linesOf (l ++ [10]) [] = some [l] := by
  rw [linesOf_seg l h]; simp [linesOf]

theorem linesOf_two (l l2 : Str) (h : ∀ c ∈ l, c ≠ 10) (h2 : ∀ c ∈ l2, c ≠ 10) :
    linesOf (l ++ [10] ++ (l2 ++ [10])) [] = some [l, l2] := by
  rw [List.append_assoc, List.singleton_append, linesOf_seg l h, linesOf_one l2 h2]; simp

theorem writeStatus_true : writeStatus true = sYES ++ [10] := by decide
theorem writeStatus_false : writeStatus false = sNO ++ [10] := by decide
theorem writeNoExt_eq : writeNoExt = sNO ++ [10] := by decide

theorem sYES_no_nl : ∀ c ∈ sYES, c ≠ 10 := by decide
theorem sNO_no_nl : ∀ c ∈ sNO, c ≠ 10 := by decide

theorem writeStatus_eq (b : Bool) : writeStatus b = (if b then sYES else sNO) ++ [10] := by
  cases b
  · exact writeStatus_false
  · exact writeStatus_true

theorem statusOfLine_eq (b : Bool) : statusOfLine (if b then sYES else sNO) = some b := by
  cases b <;> decide

theorem status_no_nl (b : Bool) : ∀ c ∈ (if b then sYES else sNO), c ≠ 10 := by
  cases b
  · exact sNO_no_nl
  · exact sYES_no_nl

/-! ## the line structure -/

/-- **stdout parses back**, for any writer / reader pair of extension lines: whenever the line
written for the set the answer carries is one `\n`-terminated line, different from `NO`, that the
line reader reads back to the set, the whole of stdout reads back to what the answer shows -/
theorem parseStdoutWith_stdoutOf (pext : Str → Option (List Nat)) (lab : Nat → Str) (wext : List Str → Str)
    (t : Task) (ans : Ans) (hs : shapeOk t ans = true)
    (hw : ∀ e, (shownOf ans).ext = some e → ∃ body, wext (e.map lab) = body ++ [10] ∧
      (∀ c ∈ body, c ≠ 10) ∧ body ≠ sNO ∧ pext body = some e) :
    parseStdoutWith pext t (stdoutOf lab wext ans) = some (shownOf ans) := by
  cases ans with
  | ext r =>
    cases t with
    | DC => cases hs
    | DS => cases hs
    | SE =>
      cases r with
      | none =>
        simp only [stdoutOf, parseStdoutWith, writeNoExt_eq, linesOf_one sNO sNO_no_nl, if_true, shownOf]
      | some e =>
        obtain ⟨body, hb, hnl, hno, hp⟩ := hw e rfl
        simp only [stdoutOf, parseStdoutWith, hb, linesOf_one body hnl, hno, if_false, hp, Option.map_some,
          shownOf]
  | acc a cv =>
    have key : parseStdoutWith pext .DC (stdoutOf lab wext (.acc a cv)) = some (shownOf (.acc a cv)) ∧
        parseStdoutWith pext .DS (stdoutOf lab wext (.acc a cv)) = some (shownOf (.acc a cv)) := by
      obtain ⟨st, c⟩ := a
      cases c with
      | none =>
        simp only [stdoutOf, parseStdoutWith, writeStatus_eq, List.append_nil,
          linesOf_one _ (status_no_nl st), statusOfLine_eq, Option.map_some, shownOf, and_self]
      | some e =>
        obtain ⟨body, hb, hnl, _, hp⟩ := hw e rfl
        simp only [stdoutOf, parseStdoutWith, writeStatus_eq, hb,
          linesOf_two _ body (status_no_nl st) hnl, statusOfLine_eq, hp, shownOf, and_self]
    cases t with
    | SE => cases hs
    | DC => exact key.1
    | DS => exact key.2

/-! ## ICCMA'23 -/

theorem mapOpt_map {α β : Type} (f : α → Option β) (g : β → α) (l : List β) (h : ∀ x ∈ l, f (g x) = some x) :
    mapOpt f (l.map g) = some l := by
  induction l with
  | nil => rfl
  | cons x xs ih =>
    simp only [List.map_cons, mapOpt, h x (List.mem_cons_self ..), ih (fun y hy => h y (List.mem_cons_of_mem _ hy))]

theorem parseDec_natToStr (k : Nat) : parseDec (natToStr k) = some k := by
  unfold parseDec
  have h1 : (natToStr k).isEmpty = false := by simpa using natToStr_ne_nil k
  simp [h1, natToStr_all_digit k, digitsVal_natToStr k]

/-- the number printed for an argument id reads back to the id -/
theorem iccmaIdOf_lab (i : Nat) : iccmaIdOf (iccmaLab i) = some i := by
  simp only [iccmaIdOf, iccmaLab, parseDec_natToStr]

theorem iccmaLab_chars (i : Nat) : ∀ c ∈ iccmaLab i, 48 ≤ c ∧ c ≤ 57 := natToStr_digits (i + 1)

/-- the ICCMA'23 extension line of a list of ids: one terminated line, read back to the ids -/
theorem extLineIccma_write (e : List Nat) :
    ∃ body, writeExtIccma (e.map iccmaLab) = body ++ [10] ∧ (∀ c ∈ body, c ≠ 10) ∧ body ≠ sNO ∧
      extLineIccma body = some e := by
  refine ⟨119 :: (e.map iccmaLab).flatMap (fun l => 32 :: l), by simp [writeExtIccma], ?_, ?_, ?_⟩
  · intro c hc
    simp only [List.mem_cons, List.mem_flatMap, List.mem_map] at hc
    rcases hc with rfl | ⟨l, ⟨i, _, rfl⟩, rfl | hc⟩
    · omega
    · omega
    · have := iccmaLab_chars i c hc; omega
  · intro h; simp [sNO] at h
  · have hw : writeExtIccma (e.map iccmaLab) = (119 :: (e.map iccmaLab).flatMap (fun l => 32 :: l)) ++ [10] := by
      simp [writeExtIccma]
    unfold extLineIccma
    rw [← hw, parseExtIccma_write]
    · exact mapOpt_map _ _ _ (fun i _ => iccmaIdOf_lab i)
    · intro l hl
      obtain ⟨i, _, rfl⟩ := List.mem_map.1 hl
      exact ⟨natToStr_ne_nil _, digits_not_ws _⟩

/-- **round trip, ICCMA'23**: for every answer of the kind the task's entry point returns, the text
printed on stdout reads back to exactly what the answer shows (status, and the set as ids) -/
theorem parseStdoutIccma_stdoutIccma (t : Task) (ans : Ans) (hs : shapeOk t ans = true) :
    parseStdoutIccma t (stdoutIccma ans) = some (shownOf ans) :=
  parseStdoutWith_stdoutOf extLineIccma iccmaLab writeExtIccma t ans hs (fun e _ => extLineIccma_write e)

/-! ## Aspartix -/

theorem intercalate_chars (sep : Str) (ls : List Str) :
    ∀ c ∈ IO.intercalate sep ls, c ∈ sep ∨ ∃ l ∈ ls, c ∈ l := by
  induction ls with
  | nil => intro c hc; cases hc
  | cons x xs ih =>
    intro c hc
    cases xs with
    | nil => exact Or.inr ⟨x, List.mem_cons_self .., by simpa [IO.intercalate] using hc⟩
    | cons y ys =>
      simp only [IO.intercalate, List.mem_append] at hc
      rcases hc with (hc | hc) | hc
      · exact Or.inr ⟨x, List.mem_cons_self .., hc⟩
      · exact Or.inl hc
      · rcases ih c hc with h | ⟨l, hl, h⟩
        · exact Or.inl h
        · exact Or.inr ⟨l, List.mem_cons_of_mem _ hl, h⟩

/-- the Aspartix extension line of a list of positions of labels: one terminated line, read back
to the positions -/
theorem extLineApx_write (labels : List Str) (hnd : labels.Nodup)
    (hl : ∀ l ∈ labels, l ≠ [] ∧ ∀ c ∈ l, c ≠ 44 ∧ c ≠ 10) (e : List Nat) (he : ∀ x ∈ e, x < labels.length) :
    ∃ body, writeExtApx (e.map (fun i => labels.getD i [])) = body ++ [10] ∧ (∀ c ∈ body, c ≠ 10) ∧
      body ≠ sNO ∧ extLineApx labels body = some e := by
  have hmem : ∀ l ∈ e.map (fun i => labels.getD i []), l ∈ labels := by
    intro l hl'
    obtain ⟨i, hi, rfl⟩ := List.mem_map.1 hl'
    exact getD_mem labels i (he i hi)
  have hw : writeExtApx (e.map (fun i => labels.getD i [])) =
      (91 :: (IO.intercalate [44] (e.map (fun i => labels.getD i [])) ++ [93])) ++ [10] := by
    simp [writeExtApx]
  refine ⟨91 :: (IO.intercalate [44] (e.map (fun i => labels.getD i [])) ++ [93]), hw, ?_, ?_, ?_⟩
  · intro c hc
    simp only [List.mem_cons, List.mem_append, List.not_mem_nil, or_false] at hc
    rcases hc with rfl | hc | rfl
    · omega
    · rcases intercalate_chars _ _ c hc with h | ⟨l, hl', h⟩
      · simp only [List.mem_singleton] at h; omega
      · exact ((hl l (hmem l hl')).2 c h).2
    · omega
  · intro h; simp [sNO] at h
  · unfold extLineApx
    rw [← hw, parseExtApx_write _ (fun l hl' c hc => ((hl l (hmem l hl')).2 c hc).1)
      (fun l hl' => (hl l (hmem l hl')).1)]
    exact mapOpt_map _ _ _ (fun i hi => idxOf_getD labels hnd i (he i hi))

/-- **round trip, Aspartix**: for pairwise distinct, non-empty labels without comma and line feed
(what the reader guarantees: `readApx_wfa`, `readApx_labels_valid`), every answer of the kind the
task's entry point returns whose printed set consists of positions of labels reads back from stdout
to exactly what it shows -/
theorem parseStdoutApx_stdoutApx (labels : List Str) (hnd : labels.Nodup)
    (hl : ∀ l ∈ labels, l ≠ [] ∧ ∀ c ∈ l, c ≠ 44 ∧ c ≠ 10) (t : Task) (ans : Ans) (hs : shapeOk t ans = true)
    (hin : ∀ e, (shownOf ans).ext = some e → ∀ x ∈ e, x < labels.length) :
    parseStdoutApx labels t (stdoutApx labels ans) = some (shownOf ans) :=
  parseStdoutWith_stdoutOf (extLineApx labels) _ writeExtApx t ans hs
    (fun e he => extLineApx_write labels hnd hl e (hin e he))

end Crusta.Cli
