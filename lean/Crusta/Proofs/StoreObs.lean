import Crusta.Proofs.StoreOps3

/-! # Store proofs, part 5: observers agree with the abstract view -/

namespace Crusta
namespace Store

theorem filterMap_id_length {α : Type} (l : List (Option α)) : (l.filterMap id).length + countNone l = l.length := by
  induction l with
  | nil => simp [countNone]
  | cons a t ih => cases a <;> simp [countNone] <;> omega

/-- `n_attacks()` is the number of live attacks -/
theorem nAttacks_eq {s : Store} (hinv : s.Inv) : s.nAttacks = s.iterAttacks.length := by
  unfold nAttacks iterAttacks
  have := filterMap_id_length s.attacks
  rw [hinv.cnt_att]; omega

theorem mem_iterAttacks {s : Store} (a b : Nat) : (a, b) ∈ s.iterAttacks ↔ s.HasAtt a b := by
  unfold iterAttacks HasAtt att
  simp only [List.mem_filterMap, id]
  constructor
  · rintro ⟨x, hx, rfl⟩
    obtain ⟨i, hi, hxi⟩ := List.mem_iff_getElem.1 hx
    exact ⟨i, by simp [List.getD_eq_getElem?_getD, List.getElem?_eq_getElem hi, hxi]⟩
  · rintro ⟨i, hi⟩
    refine ⟨some (a, b), ?_, rfl⟩
    have hlt : i < s.attacks.length := by
      apply Classical.byContradiction; intro hn
      rw [getD_ge _ _ _ (by omega)] at hi; cases hi
    rw [List.getD_eq_getElem?_getD, List.getElem?_eq_getElem hlt] at hi
    simp at hi
    rw [← hi]; exact List.getElem_mem hlt

/-- `iter_attacks_from(a)` yields exactly the live attacks whose attacker is `a` -/
theorem mem_iterFrom {s : Store} (hinv : s.Inv) (a : Nat) (p : Nat × Nat) :
    p ∈ s.iterFrom a ↔ (p.1 = a ∧ s.HasAtt p.1 p.2) := by
  unfold iterFrom
  simp only [List.mem_filterMap]
  constructor
  · rintro ⟨i, hi, hp⟩
    rcases (hinv.from_ok a i hi).2 with h | ⟨b, h⟩
    · rw [h] at hp; cases hp
    · rw [h] at hp; injection hp with hp; subst hp; exact ⟨rfl, i, h⟩
  · rintro ⟨rfl, i, hi⟩
    exact ⟨i, hinv.in_from i p.1 p.2 hi, hi⟩

/-- `iter_attacks_to(b)` yields exactly the live attacks whose target is `b` -/
theorem mem_iterTo {s : Store} (hinv : s.Inv) (b : Nat) (p : Nat × Nat) :
    p ∈ s.iterTo b ↔ (p.2 = b ∧ s.HasAtt p.1 p.2) := by
  unfold iterTo
  simp only [List.mem_filterMap]
  constructor
  · rintro ⟨i, hi, hp⟩
    rcases (hinv.to_ok b i hi).2 with h | ⟨a, h⟩
    · rw [h] at hp; cases hp
    · rw [h] at hp; injection hp with hp; subst hp; exact ⟨rfl, i, h⟩
  · rintro ⟨rfl, i, hi⟩
    exact ⟨i, hinv.in_to i p.1 p.2 hi, hi⟩

/-- no attack is listed twice by `iter_attacks` (inserting an existing attack changes nothing) -/
theorem iterAttacks_count {s : Store} (hinv : s.Inv) (i j : Nat) (a b : Nat)
    (hi : s.att i = some (a, b)) (hj : s.att j = some (a, b)) : i = j := hinv.att_nodup i j a b hi hj

/-- `n_arguments()` is the number of live arguments -/
theorem nArguments_eq {s : Store} (hinv : s.Inv) : s.nArguments + countNone s.labels = s.labels.length := by
  unfold nArguments len
  have := countNone_le s.labels
  rw [hinv.cnt_lab]; omega

end Store
end Crusta
